package main

// Runtime values of the symbolic executor.
//
//   *Term            bool, integers (bit-vectors), strings, floats (concrete only)
//   *Value           pointer (Go pointer to a cell); nil pointer = (*Value)(nil)
//   Struct, Array    aggregates (copied on load/store)
//   []Value          slice (aliasing, len, cap as in Go)
//   *Map             map with ordered association list
//   *Chan            channel
//   Iface            interface value
//   *ssa.Function, *Closure, *ssa.Builtin   functions
//   Tuple            multiple results
//   *Intrinsic       a native model of a function value

import (
	"fmt"
	"go/types"
	"strings"

	"golang.org/x/tools/go/ssa"
)

type Value interface{}

type Struct []Value
type Array []Value
type Tuple []Value

type Iface struct {
	T types.Type
	V Value
}

type Closure struct {
	Fn  *ssa.Function
	Env []Value
}

// NativeFunc is a function value implemented by the engine.
type NativeFunc struct {
	Name string
	Fn   func(c *PathCtx, fr *frame, args []Value) Value
}

type Map struct {
	keys []Value
	vals []Value
	kt   types.Type
	vt   types.Type
}

type waiter struct {
	g *Goroutine
}

type Chan struct {
	id     int
	buf    []Value
	cap    int
	closed bool
	// rendezvous for unbuffered channels: a sender parks its value here
	sendq []*sendItem
	recvWaiting int
	et     types.Type
}

type sendItem struct {
	v     Value
	taken bool
	g     *Goroutine
}

// Opaque is a value the engine knows nothing about (result of a sink).
type Opaque struct{ T types.Type }

// UnsafePtr wraps a pointer converted to unsafe.Pointer.
type UnsafePtr struct{ P Value }

func intInfo(t types.Type) (w int, signed bool, ok bool) {
	b, isb := t.Underlying().(*types.Basic)
	if !isb {
		return 0, false, false
	}
	switch b.Kind() {
	case types.Int8:
		return 8, true, true
	case types.Int16:
		return 16, true, true
	case types.Int32:
		return 32, true, true
	case types.Int64, types.Int, types.UntypedInt, types.UntypedRune:
		return 64, true, true
	case types.Uint8:
		return 8, false, true
	case types.Uint16:
		return 16, false, true
	case types.Uint32:
		return 32, false, true
	case types.Uint64, types.Uint, types.Uintptr:
		return 64, false, true
	}
	return 0, false, false
}

func isString(t types.Type) bool {
	b, ok := t.Underlying().(*types.Basic)
	return ok && b.Info()&types.IsString != 0
}
func isFloat(t types.Type) bool {
	b, ok := t.Underlying().(*types.Basic)
	return ok && b.Info()&types.IsFloat != 0
}
func isBoolT(t types.Type) bool {
	b, ok := t.Underlying().(*types.Basic)
	return ok && b.Info()&types.IsBoolean != 0
}

func zero(t types.Type) Value {
	switch t := t.(type) {
	case *types.Basic:
		if t.Kind() == types.UntypedNil {
			panic("untyped nil has no zero value")
		}
		if t.Kind() == types.UnsafePointer {
			return UnsafePtr{}
		}
		if t.Info()&types.IsBoolean != 0 {
			return tFalse
		}
		if t.Info()&types.IsString != 0 {
			return mkStr("")
		}
		if t.Info()&types.IsFloat != 0 {
			return mkFloat(0)
		}
		if t.Info()&types.IsComplex != 0 {
			return mkFloat(0)
		}
		if w, _, ok := intInfo(t); ok {
			return mkBV(w, 0)
		}
		panic(fmt.Sprintf("zero: basic %v", t))
	case *types.Pointer:
		return (*Value)(nil)
	case *types.Array:
		a := make(Array, t.Len())
		for i := range a {
			a[i] = zero(t.Elem())
		}
		return a
	case *types.Named:
		return zero(t.Underlying())
	case *types.Alias:
		return zero(types.Unalias(t))
	case *types.Interface:
		return Iface{}
	case *types.Slice:
		return []Value(nil)
	case *types.Struct:
		s := make(Struct, t.NumFields())
		for i := range s {
			s[i] = zero(t.Field(i).Type())
		}
		return s
	case *types.Tuple:
		if t.Len() == 1 {
			return zero(t.At(0).Type())
		}
		s := make(Tuple, t.Len())
		for i := range s {
			s[i] = zero(t.At(i).Type())
		}
		return s
	case *types.Chan:
		return (*Chan)(nil)
	case *types.Map:
		return (*Map)(nil)
	case *types.Signature:
		return (*ssa.Function)(nil)
	case *types.TypeParam:
		panic("zero of type parameter " + t.String())
	}
	panic(fmt.Sprintf("zero: unexpected %T %v", t, t))
}

// copyVal copies aggregates (structs/arrays are values in Go).
func copyVal(v Value) Value {
	switch v := v.(type) {
	case Struct:
		n := make(Struct, len(v))
		for i, f := range v {
			n[i] = copyVal(f)
		}
		return n
	case Array:
		n := make(Array, len(v))
		for i, f := range v {
			n[i] = copyVal(f)
		}
		return n
	}
	return v
}

func isNilValue(v Value) bool {
	switch v := v.(type) {
	case nil:
		return true
	case *Value:
		return v == nil
	case []Value:
		return v == nil
	case *Map:
		return v == nil
	case *Chan:
		return v == nil
	case Iface:
		return v.T == nil
	case *ssa.Function:
		return v == nil
	case *Closure:
		return v == nil
	case *NativeFunc:
		return v == nil
	case UnsafePtr:
		return v.P == nil || isNilValue(v.P)
	}
	return false
}

// equals returns a symbolic boolean for x == y at static type t.
func equals(t types.Type, x, y Value) *Term {
	switch x := x.(type) {
	case *Term:
		yt, ok := y.(*Term)
		if !ok {
			panic(engineErr("equals: term vs %T", y))
		}
		if x.Sort.K == KFloat {
			return mkBool(x.F == yt.F)
		}
		return tEq(x, yt)
	case *Value:
		return mkBool(x == y.(*Value))
	case *Map:
		return mkBool(x == y.(*Map))
	case *Chan:
		return mkBool(x == y.(*Chan))
	case Struct:
		ys := y.(Struct)
		r := tTrue
		var st *types.Struct
		if t != nil {
			st, _ = t.Underlying().(*types.Struct)
		}
		for i := range x {
			var ft types.Type
			if st != nil {
				if st.Field(i).Name() == "_" {
					continue
				}
				ft = st.Field(i).Type()
			}
			r = tAnd(r, equals(ft, x[i], ys[i]))
		}
		return r
	case Array:
		ya := y.(Array)
		r := tTrue
		var et types.Type
		if t != nil {
			if at, ok := t.Underlying().(*types.Array); ok {
				et = at.Elem()
			}
		}
		for i := range x {
			r = tAnd(r, equals(et, x[i], ya[i]))
		}
		return r
	case Iface:
		yi := y.(Iface)
		if x.T == nil || yi.T == nil {
			return mkBool(x.T == nil && yi.T == nil)
		}
		if !types.Identical(x.T, yi.T) {
			return tFalse
		}
		return equals(x.T, x.V, yi.V)
	case *ssa.Function, *Closure, *NativeFunc, []Value:
		// only comparable with nil
		return mkBool(isNilValue(x) && isNilValue(y))
	case UnsafePtr:
		return mkBool(x.P == y.(UnsafePtr).P)
	case Opaque:
		panic(inconclusive("comparison of opaque value"))
	}
	panic(engineErr("equals: unsupported %T", x))
}

// ---------- maps ----------

func (m *Map) Len() int {
	if m == nil {
		return 0
	}
	return len(m.keys)
}

// find returns the index of key k, forking on symbolic key comparisons.
func (m *Map) find(c *PathCtx, k Value) int {
	if m == nil {
		return -1
	}
	for i, mk := range m.keys {
		eq := equals(m.kt, mk, k)
		if c.branch(eq, "mapkey") {
			return i
		}
	}
	return -1
}

func (m *Map) lookup(c *PathCtx, k Value) (Value, bool) {
	i := m.find(c, k)
	if i < 0 {
		return nil, false
	}
	return copyVal(m.vals[i]), true
}

func (m *Map) insert(c *PathCtx, k, v Value) {
	if m == nil {
		panic(targetPanic{msg: "assignment to entry in nil map"})
	}
	i := m.find(c, k)
	if i >= 0 {
		m.vals[i] = v
		return
	}
	m.keys = append(m.keys, k)
	m.vals = append(m.vals, v)
}

func (m *Map) delete(c *PathCtx, k Value) {
	i := m.find(c, k)
	if i < 0 {
		return
	}
	m.keys = append(append([]Value{}, m.keys[:i]...), m.keys[i+1:]...)
	m.vals = append(append([]Value{}, m.vals[:i]...), m.vals[i+1:]...)
}

// ---------- iterators ----------

type iterator interface {
	next(c *PathCtx) Tuple
}

type mapIter struct {
	m       *Map
	pending []Value // keys not yet produced (snapshot at range start)
	order   bool    // fork over iteration order
}

func (it *mapIter) next(c *PathCtx) Tuple {
	for len(it.pending) > 0 {
		idx := 0
		if it.order && len(it.pending) > 1 {
			idx = c.choose(len(it.pending), "maporder")
		}
		k := it.pending[idx]
		it.pending = append(append([]Value{}, it.pending[:idx]...), it.pending[idx+1:]...)
		// still present? (entries deleted during iteration are not produced)
		for i, mk := range it.m.keys {
			if sameKeyIdentity(mk, k) {
				return Tuple{tTrue, copyVal(k), copyVal(it.m.vals[i])}
			}
		}
	}
	return Tuple{tFalse, nil, nil}
}

// sameKeyIdentity: identity of the stored key object (used by iterators only).
func sameKeyIdentity(a, b Value) bool {
	switch a := a.(type) {
	case *Term:
		bt, ok := b.(*Term)
		if !ok {
			return false
		}
		if a == bt {
			return true
		}
		if a.Const && bt.Const {
			return tEq(a, bt).Bool()
		}
		return false
	case *Value:
		return a == b.(*Value)
	case Struct:
		bs, ok := b.(Struct)
		if !ok || len(a) != len(bs) {
			return false
		}
		for i := range a {
			if !sameKeyIdentity(a[i], bs[i]) {
				return false
			}
		}
		return true
	case Array:
		bs, ok := b.(Array)
		if !ok || len(a) != len(bs) {
			return false
		}
		for i := range a {
			if !sameKeyIdentity(a[i], bs[i]) {
				return false
			}
		}
		return true
	case Iface:
		bi, ok := b.(Iface)
		if !ok {
			return false
		}
		if a.T == nil || bi.T == nil {
			return a.T == nil && bi.T == nil
		}
		return types.Identical(a.T, bi.T) && sameKeyIdentity(a.V, bi.V)
	case *Chan:
		return a == b.(*Chan)
	}
	return false
}

type stringIter struct {
	s   string
	pos int
}

func (it *stringIter) next(c *PathCtx) Tuple {
	if it.pos >= len(it.s) {
		return Tuple{tFalse, mkBV(64, 0), mkBV(32, 0)}
	}
	for i, r := range it.s[it.pos:] {
		_ = i
		p := it.pos
		it.pos += len(string(r))
		return Tuple{tTrue, mkBV(64, uint64(p)), mkBV(32, uint64(r))}
	}
	return Tuple{tFalse, mkBV(64, 0), mkBV(32, 0)}
}

// ---------- printing ----------

func valString(v Value) string {
	var b strings.Builder
	writeVal(&b, v, 0)
	return b.String()
}

func writeVal(b *strings.Builder, v Value, d int) {
	if b.Len() > 600 || d > 4 {
		b.WriteString("…")
		return
	}
	switch v := v.(type) {
	case nil:
		b.WriteString("<nil>")
	case *Term:
		b.WriteString(v.String())
	case *Value:
		if v == nil {
			b.WriteString("nil")
		} else {
			b.WriteString("&")
			writeVal(b, *v, d+1)
		}
	case Struct:
		b.WriteString("{")
		for i, f := range v {
			if i > 0 {
				b.WriteString(" ")
			}
			writeVal(b, f, d+1)
		}
		b.WriteString("}")
	case Array:
		b.WriteString("[")
		for i, f := range v {
			if i > 0 {
				b.WriteString(" ")
			}
			writeVal(b, f, d+1)
		}
		b.WriteString("]")
	case []Value:
		b.WriteString("[]{")
		for i, f := range v {
			if i > 0 {
				b.WriteString(" ")
			}
			writeVal(b, f, d+1)
		}
		b.WriteString("}")
	case Tuple:
		b.WriteString("(")
		for i, f := range v {
			if i > 0 {
				b.WriteString(", ")
			}
			writeVal(b, f, d+1)
		}
		b.WriteString(")")
	case Iface:
		if v.T == nil {
			b.WriteString("nil-iface")
		} else {
			fmt.Fprintf(b, "iface(%s:", v.T)
			writeVal(b, v.V, d+1)
			b.WriteString(")")
		}
	case *Map:
		if v == nil {
			b.WriteString("nil-map")
			return
		}
		b.WriteString("map{")
		for i := range v.keys {
			if i > 0 {
				b.WriteString(", ")
			}
			writeVal(b, v.keys[i], d+1)
			b.WriteString(":")
			writeVal(b, v.vals[i], d+1)
		}
		b.WriteString("}")
	case *ssa.Function:
		if v == nil {
			b.WriteString("nil-func")
		} else {
			b.WriteString(v.String())
		}
	case *Closure:
		b.WriteString("closure:" + v.Fn.String())
	default:
		fmt.Fprintf(b, "%T", v)
	}
}
