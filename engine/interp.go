package main

// SSA interpreter with symbolic scalars (modelled on x/tools/go/ssa/interp).

import (
	"fmt"
	"runtime/debug"
	"go/token"
	"go/types"
	"strings"

	"golang.org/x/tools/go/ssa"
)

type deferred struct {
	fn    Value
	args  []Value
	instr *ssa.Defer
	tail  *deferred
}

type frame struct {
	c                *PathCtx
	caller           *frame
	fn               *ssa.Function
	block, prevBlock *ssa.BasicBlock
	env              map[ssa.Value]Value
	locals           []Value
	defers           *deferred
	result           Value
	panicking        bool
	panic            interface{}
	callPos          token.Pos
}

func (fr *frame) get(key ssa.Value) Value {
	switch key := key.(type) {
	case nil:
		return nil
	case *ssa.Function:
		return key
	case *ssa.Builtin:
		return key
	case *ssa.Const:
		return constValue(key)
	case *ssa.Global:
		return fr.c.globalAddr(key)
	}
	if r, ok := fr.env[key]; ok {
		return r
	}
	panic(engineErr("get: no value for %T: %v in %s", key, key.Name(), fr.fn))
}

func (c *PathCtx) globalAddr(g *ssa.Global) *Value {
	if p, ok := c.globals[g]; ok {
		return p
	}
	// first touch of a global: make sure its package is initialised (if followed)
	cell := new(Value)
	*cell = zero(deref(g.Type()))
	c.globals[g] = cell
	if g.Pkg != nil {
		c.ensureInit(g.Pkg)
	}
	return cell
}

func deref(t types.Type) types.Type {
	if p, ok := t.Underlying().(*types.Pointer); ok {
		return p.Elem()
	}
	panic(engineErr("deref of non-pointer %v", t))
}

func constValue(c *ssa.Const) Value {
	if c.Value == nil {
		return zero(c.Type())
	}
	t := c.Type()
	if tp, ok := t.(*types.TypeParam); ok {
		_ = tp
		panic(engineErr("const of type param"))
	}
	if b, ok := t.Underlying().(*types.Basic); ok {
		switch {
		case b.Info()&types.IsBoolean != 0:
			return mkBool(constantBool(c))
		case b.Info()&types.IsString != 0:
			return mkStr(constantString(c))
		case b.Info()&types.IsFloat != 0:
			return mkFloat(c.Float64())
		case b.Info()&types.IsInteger != 0:
			w, signed, _ := intInfo(b)
			if signed {
				return mkBV(w, uint64(c.Int64()))
			}
			return mkBV(w, c.Uint64())
		case b.Info()&types.IsComplex != 0:
			return mkFloat(0)
		}
	}
	panic(engineErr("constValue: unexpected constant type %v", t))
}

func (c *PathCtx) tick(fr *frame, instr ssa.Instruction) {
	c.steps++
	if c.steps > c.eng.cfg.MaxSteps {
		c.abort("inconclusive", fmt.Sprintf("step limit %d exceeded in %s", c.eng.cfg.MaxSteps, fr.fn))
	}
}

func (c *PathCtx) nilDeref(fr *frame, instr ssa.Instruction) {
	panic(targetPanic{msg: "invalid memory address or nil pointer dereference", pos: c.where(fr, instr)})
}

func (c *PathCtx) where(fr *frame, instr ssa.Instruction) string {
	p := posString(c.eng.prog.Fset, instr.Pos())
	if p == "" {
		// walk back for a position
		for f := fr; f != nil && p == ""; f = f.caller {
			p = posString(c.eng.prog.Fset, f.callPos)
		}
	}
	return fmt.Sprintf("at %s in %s", p, fr.fn)
}

func visitInstr(fr *frame, instr ssa.Instruction) (ret bool, jumped bool) {
	c := fr.c
	c.tick(fr, instr)
	switch instr := instr.(type) {
	case *ssa.DebugRef:

	case *ssa.UnOp:
		fr.env[instr] = c.unop(fr, instr, fr.get(instr.X))

	case *ssa.BinOp:
		fr.env[instr] = c.binop(fr, instr, instr.Op, instr.X.Type(), fr.get(instr.X), fr.get(instr.Y))

	case *ssa.Call:
		fn, args := c.prepareCall(fr, instr, &instr.Call)
		fr.env[instr] = c.call(fr, instr.Pos(), fn, args, instr)

	case *ssa.ChangeInterface:
		fr.env[instr] = fr.get(instr.X)

	case *ssa.ChangeType:
		fr.env[instr] = fr.get(instr.X)

	case *ssa.Convert:
		fr.env[instr] = c.conv(instr.Type(), instr.X.Type(), fr.get(instr.X))

	case *ssa.SliceToArrayPointer:
		panic(inconclusive("SliceToArrayPointer unsupported"))

	case *ssa.MakeInterface:
		fr.env[instr] = Iface{T: instr.X.Type(), V: fr.get(instr.X)}

	case *ssa.Extract:
		fr.env[instr] = fr.get(instr.Tuple).(Tuple)[instr.Index]

	case *ssa.Slice:
		fr.env[instr] = c.slice(fr, instr, fr.get(instr.X), fr.get(instr.Low), fr.get(instr.High), fr.get(instr.Max))

	case *ssa.Return:
		switch len(instr.Results) {
		case 0:
		case 1:
			fr.result = fr.get(instr.Results[0])
		default:
			var res []Value
			for _, r := range instr.Results {
				res = append(res, fr.get(r))
			}
			fr.result = Tuple(res)
		}
		fr.block = nil
		return true, false

	case *ssa.RunDefers:
		fr.runDefers()

	case *ssa.Panic:
		panic(targetPanic{v: fr.get(instr.X), pos: c.where(fr, instr)})

	case *ssa.Send:
		c.chanSend(fr.get(instr.Chan).(*Chan), fr.get(instr.X))

	case *ssa.Store:
		addr := fr.get(instr.Addr).(*Value)
		if addr == nil {
			c.nilDeref(fr, instr)
		}
		*addr = copyVal(fr.get(instr.Val))

	case *ssa.If:
		cond := fr.get(instr.Cond).(*Term)
		succ := 1
		if c.branch(cond, "if") {
			succ = 0
		}
		fr.prevBlock, fr.block = fr.block, fr.block.Succs[succ]
		return false, true

	case *ssa.Jump:
		fr.prevBlock, fr.block = fr.block, fr.block.Succs[0]
		return false, true

	case *ssa.Defer:
		fn, args := c.prepareCall(fr, instr, &instr.Call)
		fr.defers = &deferred{fn: fn, args: args, instr: instr, tail: fr.defers}

	case *ssa.Go:
		fn, args := c.prepareCall(fr, instr, &instr.Call)
		pos := instr.Pos()
		c.spawn(fmt.Sprintf("go@%s", posString(c.eng.prog.Fset, pos)), func() {
			c.call(nil, pos, fn, args, nil)
		})
		if c.exploring {
			c.yield(false)
		}

	case *ssa.MakeChan:
		sz := fr.get(instr.Size).(*Term)
		if !sz.Const {
			panic(inconclusive("symbolic channel size"))
		}
		c.chanN++
		fr.env[instr] = &Chan{id: c.chanN, cap: int(sz.Int64()), et: instr.Type().Underlying().(*types.Chan).Elem()}

	case *ssa.Alloc:
		var addr *Value
		if instr.Heap {
			addr = new(Value)
			fr.env[instr] = addr
		} else {
			addr = fr.env[instr].(*Value)
		}
		*addr = zero(deref(instr.Type()))

	case *ssa.MakeSlice:
		capT := fr.get(instr.Cap).(*Term)
		lenT := fr.get(instr.Len).(*Term)
		cp := c.concretize(capT, 0, 64, "makeslice-cap")
		ln := c.concretize(lenT, 0, 64, "makeslice-len")
		if cp > 1<<20 || cp < 0 {
			panic(inconclusive("huge MakeSlice %d", cp))
		}
		sl := make([]Value, cp)
		tElt := instr.Type().Underlying().(*types.Slice).Elem()
		for i := range sl {
			sl[i] = zero(tElt)
		}
		fr.env[instr] = sl[:ln]

	case *ssa.MakeMap:
		mt := instr.Type().Underlying().(*types.Map)
		fr.env[instr] = &Map{kt: mt.Key(), vt: mt.Elem()}

	case *ssa.Range:
		fr.env[instr] = c.rangeIter(fr.get(instr.X), instr.X.Type())

	case *ssa.Next:
		fr.env[instr] = fr.get(instr.Iter).(iterator).next(c)

	case *ssa.FieldAddr:
		p := fr.get(instr.X).(*Value)
		if p == nil {
			c.nilDeref(fr, instr)
		}
		st, ok := (*p).(Struct)
		if !ok {
			panic(engineErr("FieldAddr on %T (%s) %s", *p, instr, c.where(fr, instr)))
		}
		fr.env[instr] = &st[instr.Field]

	case *ssa.Field:
		fr.env[instr] = fr.get(instr.X).(Struct)[instr.Field]

	case *ssa.IndexAddr:
		x := fr.get(instr.X)
		idx := fr.get(instr.Index).(*Term)
		switch x := x.(type) {
		case []Value:
			i := c.indexCheck(fr, instr, idx, len(x))
			fr.env[instr] = &x[i]
		case *Value:
			if x == nil {
				c.nilDeref(fr, instr)
			}
			arr := (*x).(Array)
			i := c.indexCheck(fr, instr, idx, len(arr))
			fr.env[instr] = &arr[i]
		default:
			panic(engineErr("IndexAddr on %T", x))
		}

	case *ssa.Index:
		x := fr.get(instr.X)
		idx := fr.get(instr.Index).(*Term)
		switch x := x.(type) {
		case Array:
			i := c.indexCheck(fr, instr, idx, len(x))
			fr.env[instr] = x[i]
		case *Term: // string
			if !x.Const {
				panic(inconclusive("index into symbolic string %s", c.where(fr, instr)))
			}
			i := c.indexCheck(fr, instr, idx, len(x.S))
			fr.env[instr] = mkBV(8, uint64(x.S[i]))
		default:
			panic(engineErr("Index on %T", x))
		}

	case *ssa.Lookup:
		fr.env[instr] = c.lookup(fr, instr, fr.get(instr.X), fr.get(instr.Index))

	case *ssa.MapUpdate:
		m := fr.get(instr.Map).(*Map)
		if m == nil {
			panic(targetPanic{msg: "assignment to entry in nil map", pos: c.where(fr, instr)})
		}
		m.insert(c, copyVal(fr.get(instr.Key)), copyVal(fr.get(instr.Value)))

	case *ssa.TypeAssert:
		fr.env[instr] = c.typeAssert(fr, instr, fr.get(instr.X).(Iface))

	case *ssa.MakeClosure:
		var bindings []Value
		for _, b := range instr.Bindings {
			bindings = append(bindings, fr.get(b))
		}
		fr.env[instr] = &Closure{instr.Fn.(*ssa.Function), bindings}

	case *ssa.Phi:
		panic(engineErr("phi reached"))

	case *ssa.Select:
		fr.env[instr] = c.selectInstr(fr, instr)

	default:
		panic(inconclusive("unsupported instruction %T %s", instr, c.where(fr, instr)))
	}
	return false, false
}

func (c *PathCtx) indexCheck(fr *frame, instr ssa.Instruction, idx *Term, n int) int {
	if idx.Const {
		i := idx.Int64()
		if i < 0 || i >= int64(n) {
			panic(targetPanic{msg: fmt.Sprintf("index out of range [%d] with length %d", i, n), pos: c.where(fr, instr)})
		}
		return int(i)
	}
	for i := 0; i < n; i++ {
		if c.branch(tEq(idx, mkBV(idx.Sort.W, uint64(i))), "index") {
			return i
		}
	}
	panic(targetPanic{msg: fmt.Sprintf("index out of range [symbolic] with length %d", n), pos: c.where(fr, instr)})
}

func (c *PathCtx) prepareCall(fr *frame, site ssa.Instruction, call *ssa.CallCommon) (fn Value, args []Value) {
	v := fr.get(call.Value)
	if call.Method == nil {
		fn = v
	} else {
		recv := v.(Iface)
		if recv.T == sinkObjType {
			sig := call.Method.Type().(*types.Signature)
			fn = &NativeFunc{Name: "sink." + call.Method.Name(), Fn: func(c *PathCtx, fr *frame, args []Value) Value { return sinkResultOf(sig.Results()) }}
			for _, a := range call.Args {
				args = append(args, fr.get(a))
			}
			if c.side["sinkobs"] != nil {
				// a method of an object produced by a sink (logger.With(...).Warn(...)): observed as a log call
				c.observeSink("sinkobject."+call.Method.Name(), args)
			}
			return
		}
		if recv.T == nil {
			panic(targetPanic{msg: "invalid memory address or nil pointer dereference (method " + call.Method.Name() + " on nil interface)", pos: c.where(fr, site)})
		}
		f := c.eng.prog.LookupMethod(recv.T, call.Method.Pkg(), call.Method.Name())
		if f == nil {
			panic(engineErr("method set of %v lacks %s", recv.T, call.Method))
		}
		fn = f
		args = append(args, recv.V)
	}
	for _, a := range call.Args {
		args = append(args, fr.get(a))
	}
	return
}

func (c *PathCtx) call(caller *frame, pos token.Pos, fn Value, args []Value, site ssa.Instruction) Value {
	switch fn := fn.(type) {
	case *ssa.Function:
		if fn == nil {
			panic(targetPanic{msg: "call of nil function", pos: posString(c.eng.prog.Fset, pos)})
		}
		return c.callSSA(caller, pos, fn, args, nil)
	case *Closure:
		if fn == nil {
			panic(targetPanic{msg: "call of nil function", pos: posString(c.eng.prog.Fset, pos)})
		}
		return c.callSSA(caller, pos, fn.Fn, args, fn.Env)
	case *ssa.Builtin:
		return c.callBuiltin(caller, pos, fn, args, site)
	case *NativeFunc:
		return fn.Fn(c, caller, args)
	}
	panic(engineErr("cannot call %T", fn))
}

// callSSA runs the call hooks configured for fn (harness functions executed before /
// after the real function, natively mirrored by an overlay wrapper) around the call.
func (c *PathCtx) callSSA(caller *frame, pos token.Pos, fn *ssa.Function, args []Value, env []Value) Value {
	if len(c.eng.hooks) != 0 && c.lenient == 0 {
		if hk := c.eng.hookFor(fn); hk != nil {
			if hk.before != nil {
				c.callSSA1(caller, pos, hk.before, args, nil)
			}
			r := c.callSSA1(caller, pos, fn, args, env)
			if hk.after != nil {
				c.callSSA1(caller, pos, hk.after, args, nil)
			}
			return r
		}
	}
	return c.callSSA1(caller, pos, fn, args, env)
}

func (c *PathCtx) callSSA1(caller *frame, pos token.Pos, fn *ssa.Function, args []Value, env []Value) Value {
	fr := &frame{c: c, caller: caller, fn: fn, callPos: pos}
	// dispatch: redirect, intrinsic, sink, follow
	switch c.eng.classify(fn) {
	case clsIntrinsic:
		k := c.eng.fnKey(fn)
		c.eng.funcsMu.Lock()
		c.eng.funcsSeen[k]++
		c.eng.funcsMu.Unlock()
		return c.eng.intrinsics[k](c, fr, args)
	case clsSink:
		if c.side["sinkobs"] != nil && isLogSinkPkg(fnPkgPath(fn)) {
			c.observeSink(fn.String(), args)
		}
		return c.sinkResult(fn)
	case clsRedirect:
		target := c.eng.redirects[c.eng.fnKey(fn)]
		return c.callSSA(caller, pos, target, args, nil)
	case clsUnknown:
		if c.lenient > 0 {
			return c.sinkResult(fn)
		}
		where := ""
		if caller != nil {
			where = " called from " + caller.fn.String() + " " + posString(c.eng.prog.Fset, pos)
		}
		panic(inconclusive("unknown callee %s%s", c.eng.fnKey(fn), where))
	}
	if fn.Blocks == nil {
		c.eng.buildFn(fn)
		if fn.Blocks == nil {
			if c.lenient > 0 {
				return c.sinkResult(fn)
			}
			panic(inconclusive("no body for %s", c.eng.fnKey(fn)))
		}
	}
	if fn.Pkg != nil && fn.Name() != "init" {
		c.ensureInit(fn.Pkg)
	}
	c.eng.noteFunc(c, fn)
	fr.env = make(map[ssa.Value]Value, 16)
	fr.block = fn.Blocks[0]
	fr.locals = make([]Value, len(fn.Locals))
	for i, l := range fn.Locals {
		fr.locals[i] = zero(deref(l.Type()))
		fr.env[l] = &fr.locals[i]
	}
	if len(args) != len(fn.Params) {
		panic(engineErr("call %s: %d args for %d params", fn, len(args), len(fn.Params)))
	}
	for i, p := range fn.Params {
		fr.env[p] = args[i]
	}
	for i, fv := range fn.FreeVars {
		fr.env[fv] = env[i]
	}
	depth := 0
	for f := caller; f != nil; f = f.caller {
		depth++
	}
	if depth > 400 {
		panic(inconclusive("call depth > 400 at %s", fn))
	}
	if c.lenient > 0 && fn.Parent() == nil && fn.Signature.Recv() == nil && (fn.Name() == "init" || strings.HasPrefix(fn.Name(), "init#")) {
		// package initialisers run leniently: an initialiser that needs code outside
		// the encoder (protobuf registration, ...) is abandoned at the failing point
		return c.runInitLenient(fr)
	}
	for fr.block != nil {
		runFrame(fr)
	}
	return fr.result
}

func (c *PathCtx) runInitLenient(fr *frame) (res Value) {
	defer func() {
		if r := recover(); r != nil {
			if _, ok := r.(targetPanic); ok {
				res = nil
				return
			}
			if pa, ok := r.(pathAbort); ok && pa.kind == "inconclusive" {
				res = nil
				return
			}
			panic(r)
		}
	}()
	for fr.block != nil {
		runFrame(fr)
	}
	return fr.result
}

// sinkObjType marks interface values produced by sinks (loggers, metric vectors):
// invoking any method on them is again a sink, so chains like
// metrics.X.WithLabelValues(..).Set(..) do not look like nil dereferences.
var sinkObjType = types.NewNamed(types.NewTypeName(token.NoPos, nil, "symgo.sinkobject", nil), types.NewStruct(nil, nil), nil)

func sinkZero(t types.Type) Value {
	if _, ok := t.Underlying().(*types.Interface); ok && !isErrorType(t) {
		return Iface{T: sinkObjType}
	}
	// a sink that returns a pointer to a struct (log.With(...) *MLogger, zap.NewNop() ...)
	// returns an object, not nil: callers select fields of it
	if pt, ok := t.Underlying().(*types.Pointer); ok && !isErrorType(t) {
		if _, isSt := pt.Elem().Underlying().(*types.Struct); isSt {
			p := new(Value)
			*p = zero(pt.Elem())
			return p
		}
	}
	return zero(t)
}

func sinkResultOf(res *types.Tuple) Value {
	switch res.Len() {
	case 0:
		return nil
	case 1:
		return sinkZero(res.At(0).Type())
	}
	out := make(Tuple, res.Len())
	for i := range out {
		out[i] = sinkZero(res.At(i).Type())
	}
	return out
}

func (c *PathCtx) sinkResult(fn *ssa.Function) Value {
	return sinkResultOf(fn.Signature.Results())
}

func runFrame(fr *frame) {
	defer func() {
		if fr.block == nil {
			return // normal return
		}
		r := recover()
		switch rr := r.(type) {
		case targetPanic:
			// target-level panic: run defers, maybe recover
		case pathAbort, killSignal, engineError:
			panic(r) // engine signals propagate untouched
		default:
			panic(engineError{fmt.Sprintf("%v in %s\n%s", rr, fr.fn, debug.Stack())})
		}
		fr.panicking = true
		fr.panic = r
		fr.runDefers()
		fr.block = fr.fn.Recover
		if fr.block == nil {
			// recovered in a function without named results: return zero values
			fr.result = fr.c.sinkResult(fr.fn)
		}
	}()
	for {
		instrs := executePhis(fr)
		for _, instr := range instrs {
			ret, jumped := visitInstr(fr, instr)
			if ret {
				return
			}
			if jumped {
				break
			}
		}
	}
}

func executePhis(fr *frame) []ssa.Instruction {
	first := -1
	for i, instr := range fr.block.Instrs {
		if _, ok := instr.(*ssa.Phi); !ok {
			first = i
			break
		}
	}
	nonPhis := fr.block.Instrs[first:]
	if first > 0 {
		phis := fr.block.Instrs[:first]
		pred := -1
		for i, p := range fr.block.Preds {
			if p == fr.prevBlock {
				pred = i
				break
			}
		}
		tmp := make([]Value, len(phis))
		for i, phi := range phis {
			tmp[i] = fr.get(phi.(*ssa.Phi).Edges[pred])
		}
		for i, phi := range phis {
			fr.env[phi.(*ssa.Phi)] = tmp[i]
		}
	}
	return nonPhis
}

func (fr *frame) runDefer(d *deferred) {
	var ok bool
	defer func() {
		if !ok {
			r := recover()
			if _, isT := r.(targetPanic); !isT {
				panic(r)
			}
			fr.panicking = true
			fr.panic = r
		}
	}()
	fr.c.call(fr, d.instr.Pos(), d.fn, d.args, nil)
	ok = true
}

func (fr *frame) runDefers() {
	for d := fr.defers; d != nil; d = d.tail {
		fr.runDefer(d)
	}
	fr.defers = nil
	if fr.panicking {
		panic(fr.panic)
	}
}

func doRecover(caller *frame) Value {
	if caller != nil && !caller.panicking && caller.caller != nil && caller.caller.panicking {
		caller.caller.panicking = false
		p := caller.caller.panic
		caller.caller.panic = nil
		switch p := p.(type) {
		case targetPanic:
			if p.v != nil {
				return p.v
			}
			return Iface{T: types.Typ[types.String], V: mkStr("runtime error: " + p.msg)}
		}
		panic(engineErr("recover of %T", p))
	}
	return Iface{}
}

// ensureInit runs the package initialiser of followed packages once per path.
func (c *PathCtx) ensureInit(pkg *ssa.Package) {
	if c.inited[pkg] {
		return
	}
	c.inited[pkg] = true
	if !c.eng.initPkgs[pkg.Pkg.Path()] {
		return
	}
	initFn := pkg.Func("init")
	if initFn == nil {
		return
	}
	c.eng.buildPkg(pkg)
	c.lenient++
	saveExpl := c.exploring
	c.exploring = false
	c.callSSA(nil, token.NoPos, initFn, nil, nil)
	c.exploring = saveExpl
	c.lenient--
}

func fnPkgPath(fn *ssa.Function) string {
	if fn.Pkg != nil {
		return fn.Pkg.Pkg.Path()
	}
	if o := fn.Origin(); o != nil && o.Pkg != nil {
		return o.Pkg.Pkg.Path()
	}
	if fn.Parent() != nil {
		return fnPkgPath(fn.Parent())
	}
	// synthetic wrappers: use the receiver/object package
	if obj := fn.Object(); obj != nil && obj.Pkg() != nil {
		return obj.Pkg().Path()
	}
	if fn.Signature.Recv() != nil {
		t := fn.Signature.Recv().Type()
		if p, ok := t.(*types.Pointer); ok {
			t = p.Elem()
		}
		if n, ok := t.(*types.Named); ok && n.Obj().Pkg() != nil {
			return n.Obj().Pkg().Path()
		}
	}
	return ""
}

var _ = strings.TrimSpace
