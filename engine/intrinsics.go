package main

// Hand-written models of library functions the SSA executor cannot or should
// not follow. Every intrinsic that is actually hit is listed in the evidence.

import (
	"encoding/base64"
	"path"
	"reflect"
	"fmt"
	"go/types"
	"sort"
	"strconv"
	"strings"

	"golang.org/x/tools/go/ssa"
)

func (e *Engine) registerIntrinsics() {
	in := map[string]intrinsicFn{}
	e.intrinsics = in

	// ---------------- sync ----------------
	lockOf := func(c *PathCtx, p Value) *lockState {
		ptr := p.(*Value)
		if ptr == nil {
			panic(targetPanic{msg: "nil mutex"})
		}
		ls := c.locks[ptr]
		if ls == nil {
			ls = &lockState{}
			c.locks[ptr] = ls
		}
		return ls
	}
	lock := func(c *PathCtx, fr *frame, args []Value) Value {
		ls := lockOf(c, args[0])
		if c.exploring {
			c.yield(false)
		}
		c.block(func() bool { return !ls.writer && ls.readers == 0 }, "mutex.Lock")
		ls.writer = true
		ls.owner = c.cur
		return nil
	}
	unlock := func(c *PathCtx, fr *frame, args []Value) Value {
		ls := lockOf(c, args[0])
		if !ls.writer {
			panic(targetPanic{msg: "sync: unlock of unlocked mutex"})
		}
		ls.writer = false
		ls.owner = nil
		if c.exploring {
			c.yield(false)
		}
		return nil
	}
	rlock := func(c *PathCtx, fr *frame, args []Value) Value {
		ls := lockOf(c, args[0])
		if c.exploring {
			c.yield(false)
		}
		c.block(func() bool { return !ls.writer }, "rwmutex.RLock")
		ls.readers++
		return nil
	}
	runlock := func(c *PathCtx, fr *frame, args []Value) Value {
		ls := lockOf(c, args[0])
		if ls.readers <= 0 {
			panic(targetPanic{msg: "sync: RUnlock of unlocked RWMutex"})
		}
		ls.readers--
		if c.exploring {
			c.yield(false)
		}
		return nil
	}
	trylock := func(c *PathCtx, fr *frame, args []Value) Value {
		ls := lockOf(c, args[0])
		if !ls.writer && ls.readers == 0 {
			ls.writer = true
			ls.owner = c.cur
			return tTrue
		}
		return tFalse
	}
	for _, pfx := range []string{"sync", "github.com/sasha-s/go-deadlock"} {
		in["(*"+pfx+".Mutex).Lock"] = lock
		in["(*"+pfx+".Mutex).Unlock"] = unlock
		in["(*"+pfx+".Mutex).TryLock"] = trylock
		in["(*"+pfx+".RWMutex).Lock"] = lock
		in["(*"+pfx+".RWMutex).Unlock"] = unlock
		in["(*"+pfx+".RWMutex).RLock"] = rlock
		in["(*"+pfx+".RWMutex).RUnlock"] = runlock
		in["(*"+pfx+".RWMutex).TryLock"] = trylock
	}
	in["(*sync.Once).Do"] = func(c *PathCtx, fr *frame, args []Value) Value {
		ptr := args[0].(*Value)
		if c.onces[ptr] {
			return nil
		}
		c.onces[ptr] = true
		c.call(fr, fr.callPos, args[1], nil, nil)
		return nil
	}
	// WaitGroup: counter kept in the side table
	wgCount := func(c *PathCtx, p Value) *int {
		key := p.(*Value)
		if v, ok := c.side[key]; ok {
			return v.(*int)
		}
		n := new(int)
		c.side[key] = n
		return n
	}
	in["(*sync.WaitGroup).Add"] = func(c *PathCtx, fr *frame, args []Value) Value {
		d := args[1].(*Term)
		if !d.Const {
			panic(inconclusive("WaitGroup.Add symbolic"))
		}
		*wgCount(c, args[0]) += int(d.Int64())
		return nil
	}
	in["(*sync.WaitGroup).Done"] = func(c *PathCtx, fr *frame, args []Value) Value {
		*wgCount(c, args[0])--
		return nil
	}
	in["(*sync.WaitGroup).Wait"] = func(c *PathCtx, fr *frame, args []Value) Value {
		n := wgCount(c, args[0])
		c.block(func() bool { return *n <= 0 }, "WaitGroup.Wait")
		return nil
	}
	// sync.Map as an ordered association list keyed by interface values
	syncMap := func(c *PathCtx, p Value) *Map {
		key := p.(*Value)
		if v, ok := c.side[key]; ok {
			return v.(*Map)
		}
		m := &Map{}
		c.side[key] = m
		return m
	}
	in["(*sync.Map).Load"] = func(c *PathCtx, fr *frame, args []Value) Value {
		m := syncMap(c, args[0])
		v, ok := m.lookup(c, args[1])
		if !ok {
			return Tuple{Iface{}, tFalse}
		}
		return Tuple{v, tTrue}
	}
	in["(*sync.Map).Store"] = func(c *PathCtx, fr *frame, args []Value) Value {
		syncMap(c, args[0]).insert(c, args[1], args[2])
		return nil
	}
	in["(*sync.Map).LoadOrStore"] = func(c *PathCtx, fr *frame, args []Value) Value {
		m := syncMap(c, args[0])
		if v, ok := m.lookup(c, args[1]); ok {
			return Tuple{v, tTrue}
		}
		m.keys = append(m.keys, args[1])
		m.vals = append(m.vals, args[2])
		return Tuple{args[2], tFalse}
	}
	in["(*sync.Map).Delete"] = func(c *PathCtx, fr *frame, args []Value) Value {
		syncMap(c, args[0]).delete(c, args[1])
		return nil
	}
	in["(*sync.Map).LoadAndDelete"] = func(c *PathCtx, fr *frame, args []Value) Value {
		m := syncMap(c, args[0])
		v, ok := m.lookup(c, args[1])
		if !ok {
			return Tuple{Iface{}, tFalse}
		}
		m.delete(c, args[1])
		return Tuple{v, tTrue}
	}
	in["(*sync.Map).Range"] = func(c *PathCtx, fr *frame, args []Value) Value {
		m := syncMap(c, args[0])
		it := &mapIter{m: m, order: c.entry.MapOrder && c.lenient == 0, pending: append([]Value{}, m.keys...)}
		for {
			t := it.next(c)
			if !t[0].(*Term).Bool() {
				return nil
			}
			r := c.call(fr, fr.callPos, args[1], []Value{t[1], t[2]}, nil).(*Term)
			if !c.branch(r, "syncmap-range") {
				return nil
			}
		}
	}

	// ---------------- sync/atomic ----------------
	atomicLoad := func(c *PathCtx, fr *frame, args []Value) Value {
		p := args[0].(*Value)
		if p == nil {
			panic(targetPanic{msg: "nil pointer dereference (atomic)"})
		}
		return *p
	}
	atomicStore := func(c *PathCtx, fr *frame, args []Value) Value {
		p := args[0].(*Value)
		*p = args[1]
		return nil
	}
	atomicAdd := func(c *PathCtx, fr *frame, args []Value) Value {
		p := args[0].(*Value)
		*p = tBV2("bvadd", (*p).(*Term), args[1].(*Term))
		return *p
	}
	atomicSwap := func(c *PathCtx, fr *frame, args []Value) Value {
		p := args[0].(*Value)
		old := *p
		*p = args[1]
		return old
	}
	atomicCAS := func(c *PathCtx, fr *frame, args []Value) Value {
		p := args[0].(*Value)
		if c.branch(equals(nil, *p, args[1]), "cas") {
			*p = args[2]
			return tTrue
		}
		return tFalse
	}
	for _, ty := range []string{"Int32", "Int64", "Uint32", "Uint64", "Uintptr", "Pointer"} {
		in["sync/atomic.Load"+ty] = atomicLoad
		in["sync/atomic.Store"+ty] = atomicStore
		in["sync/atomic.Add"+ty] = atomicAdd
		in["sync/atomic.Swap"+ty] = atomicSwap
		in["sync/atomic.CompareAndSwap"+ty] = atomicCAS
	}
	// atomic.Value: keep the interface in the side table
	in["(*sync/atomic.Value).Load"] = func(c *PathCtx, fr *frame, args []Value) Value {
		if v, ok := c.side[args[0].(*Value)]; ok {
			return v.(Iface)
		}
		return Iface{}
	}
	in["(*sync/atomic.Value).Store"] = func(c *PathCtx, fr *frame, args []Value) Value {
		c.side[args[0].(*Value)] = args[1].(Iface)
		return nil
	}
	in["(*sync/atomic.Value).CompareAndSwap"] = func(c *PathCtx, fr *frame, args []Value) Value {
		cur := Iface{}
		if v, ok := c.side[args[0].(*Value)]; ok {
			cur = v.(Iface)
		}
		if c.branch(equals(nil, cur, args[1].(Iface)), "cas") {
			c.side[args[0].(*Value)] = args[2].(Iface)
			return tTrue
		}
		return tFalse
	}

	// ---------------- time ----------------
	timeNow := func(c *PathCtx) Value {
		if c.eng.cfg.FrozenClock {
			// the wall clock does not advance during the scenario (timers never fire)
			return Struct{mkBV(64, 0), mkBV(64, 1000), (*Value)(nil)}
		}
		c.clockN++
		n := c.newVar(SBV(64), fmt.Sprintf("clock.now%d", c.clockN))
		// non-decreasing, and far from wrap-around
		c.assertTerm(tBVCmp("bvult", n, mkBV(64, 1<<62)))
		if c.lastNow != nil {
			c.assertTerm(tBVCmp("bvuge", n, c.lastNow))
		}
		c.lastNow = n
		return Struct{mkBV(64, 0), n, (*Value)(nil)}
	}
	in["time.Now"] = func(c *PathCtx, fr *frame, args []Value) Value { return timeNow(c) }
	in["time.Since"] = func(c *PathCtx, fr *frame, args []Value) Value {
		now := timeNow(c).(Struct)
		return tBV2("bvsub", now[1].(*Term), args[0].(Struct)[1].(*Term))
	}
	in["(time.Time).Sub"] = func(c *PathCtx, fr *frame, args []Value) Value {
		return tBV2("bvsub", args[0].(Struct)[1].(*Term), args[1].(Struct)[1].(*Term))
	}
	in["(time.Time).After"] = func(c *PathCtx, fr *frame, args []Value) Value {
		return tBVCmp("bvsgt", args[0].(Struct)[1].(*Term), args[1].(Struct)[1].(*Term))
	}
	in["(time.Time).Before"] = func(c *PathCtx, fr *frame, args []Value) Value {
		return tBVCmp("bvslt", args[0].(Struct)[1].(*Term), args[1].(Struct)[1].(*Term))
	}
	in["(time.Time).IsZero"] = func(c *PathCtx, fr *frame, args []Value) Value {
		return tEq(args[0].(Struct)[1].(*Term), mkBV(64, 0))
	}
	in["(time.Time).UnixNano"] = func(c *PathCtx, fr *frame, args []Value) Value {
		return args[0].(Struct)[1]
	}
	in["(time.Time).Add"] = func(c *PathCtx, fr *frame, args []Value) Value {
		t := args[0].(Struct)
		return Struct{t[0], tBV2("bvadd", t[1].(*Term), args[1].(*Term)), t[2]}
	}
	in["time.Sleep"] = func(c *PathCtx, fr *frame, args []Value) Value {
		c.yield(true)
		return nil
	}

	// ---------------- strings / strconv (concrete fast path + symbolic models) ----------------
	in["strings.Contains"] = func(c *PathCtx, fr *frame, args []Value) Value {
		return tStrContains(args[0].(*Term), args[1].(*Term))
	}
	in["strings.HasPrefix"] = func(c *PathCtx, fr *frame, args []Value) Value {
		return tStrPrefixOf(args[1].(*Term), args[0].(*Term))
	}
	in["strings.HasSuffix"] = func(c *PathCtx, fr *frame, args []Value) Value {
		return tStrSuffixOf(args[1].(*Term), args[0].(*Term))
	}
	in["strings.Index"] = func(c *PathCtx, fr *frame, args []Value) Value {
		return tInt2BV(tIndexOf(args[0].(*Term), args[1].(*Term), mkIntC(0)), 64)
	}
	in["strings.LastIndex"] = func(c *PathCtx, fr *frame, args []Value) Value {
		s, sub := args[0].(*Term), args[1].(*Term)
		if s.Const && sub.Const {
			return mkBV(64, uint64(int64(strings.LastIndex(s.S, sub.S))))
		}
		// fresh i with: (i=-1 ∧ ¬contains) ∨ (0<=i ∧ substr(s,i,|sub|)=sub ∧ ¬contains(substr(s,i+1,..),sub))
		c.clockN++
		i := c.newVar(SInt, fmt.Sprintf("lastindex%d", c.clockN))
		n := tStrLenInt(sub)
		notFound := tAnd(tEq(i, mkIntC(-1)), tNot(tStrContains(s, sub)))
		tail := tSubstr(s, tIntOp("+", i, mkIntC(1)), tStrLenInt(s))
		found := tAnd(tAnd(tIntCmp(">=", i, mkIntC(0)), tEq(tSubstr(s, i, n), sub)), tNot(tStrContains(tail, sub)))
		if sub.Const && len(sub.S) == 1 {
			// exact for single-byte separators
		} else {
			panic(inconclusive("strings.LastIndex with symbolic or multi-byte separator"))
		}
		c.assertTerm(tOr(notFound, found))
		return tInt2BV(i, 64)
	}
	in["strings.ReplaceAll"] = func(c *PathCtx, fr *frame, args []Value) Value {
		return tStrReplaceAll(args[0].(*Term), args[1].(*Term), args[2].(*Term))
	}
	in["strings.Split"] = func(c *PathCtx, fr *frame, args []Value) Value {
		s, sep := args[0].(*Term), args[1].(*Term)
		if s.Const && sep.Const {
			parts := strings.Split(s.S, sep.S)
			out := make([]Value, len(parts))
			for i, p := range parts {
				out[i] = mkStr(p)
			}
			return out
		}
		if !sep.Const || sep.S == "" {
			panic(inconclusive("strings.Split with symbolic separator"))
		}
		// fork on the number of separators (bounded), s = p0 sep p1 ... pn, no pi contains sep
		maxN := 4
		var rest *Term = s
		var out []Value
		for k := 0; ; k++ {
			if k >= maxN {
				c.assertTerm(tNot(tStrContains(rest, sep)))
				if c.checkSat() == "unsat" {
					c.abort("infeasible", "split bound")
				}
				// bound: strings with more separators are outside the claim
				c.res.Reached["bound:strings.Split>"+strconv.Itoa(maxN)]++
				out = append(out, rest)
				return out
			}
			if !c.branch(tStrContains(rest, sep), "split") {
				out = append(out, rest)
				return out
			}
			idx := tIndexOf(rest, sep, mkIntC(0))
			head := tSubstr(rest, mkIntC(0), idx)
			off := tIntOp("+", idx, mkIntC(int64(len(sep.S))))
			tail := tSubstr(rest, off, tIntOp("-", tStrLenInt(rest), off))
			out = append(out, head)
			rest = tail
		}
	}
	in["strings.Join"] = func(c *PathCtx, fr *frame, args []Value) Value {
		parts := args[0].([]Value)
		sep := args[1].(*Term)
		var r *Term = mkStr("")
		for i, p := range parts {
			if i > 0 {
				r = tConcat(r, sep)
			}
			r = tConcat(r, p.(*Term))
		}
		return r
	}
	concreteStr1 := func(name string, f func(string) string) {
		in[name] = func(c *PathCtx, fr *frame, args []Value) Value {
			s := args[0].(*Term)
			if !s.Const {
				panic(inconclusive("%s on symbolic string", name))
			}
			return mkStr(f(s.S))
		}
	}
	concreteStr1("strings.ToLower", strings.ToLower)
	concreteStr1("strings.ToUpper", strings.ToUpper)
	concreteStr1("strings.TrimSpace", strings.TrimSpace)
	in["strings.EqualFold"] = func(c *PathCtx, fr *frame, args []Value) Value {
		a, b := args[0].(*Term), args[1].(*Term)
		if a.Const && b.Const {
			return mkBool(strings.EqualFold(a.S, b.S))
		}
		panic(inconclusive("strings.EqualFold symbolic"))
	}
	in["strings.TrimPrefix"] = func(c *PathCtx, fr *frame, args []Value) Value {
		s, p := args[0].(*Term), args[1].(*Term)
		if s.Const && p.Const {
			return mkStr(strings.TrimPrefix(s.S, p.S))
		}
		has := tStrPrefixOf(p, s)
		n := tStrLenInt(p)
		return tIte(has, tSubstr(s, n, tIntOp("-", tStrLenInt(s), n)), s)
	}
	in["strings.TrimSuffix"] = func(c *PathCtx, fr *frame, args []Value) Value {
		s, p := args[0].(*Term), args[1].(*Term)
		if s.Const && p.Const {
			return mkStr(strings.TrimSuffix(s.S, p.S))
		}
		has := tStrSuffixOf(p, s)
		return tIte(has, tSubstr(s, mkIntC(0), tIntOp("-", tStrLenInt(s), tStrLenInt(p))), s)
	}
	in["strconv.Itoa"] = func(c *PathCtx, fr *frame, args []Value) Value {
		return fmtInt(c, args[0].(*Term), true)
	}
	in["strconv.FormatInt"] = func(c *PathCtx, fr *frame, args []Value) Value {
		b := args[1].(*Term)
		if !b.Const || b.Int64() != 10 {
			panic(inconclusive("FormatInt base != 10"))
		}
		return fmtInt(c, args[0].(*Term), true)
	}
	in["strconv.FormatUint"] = func(c *PathCtx, fr *frame, args []Value) Value {
		b := args[1].(*Term)
		if !b.Const || b.Int64() != 10 {
			panic(inconclusive("FormatUint base != 10"))
		}
		return fmtInt(c, args[0].(*Term), false)
	}

	// ---------------- fmt / errors ----------------
	in["fmt.Sprintf"] = func(c *PathCtx, fr *frame, args []Value) Value {
		return c.sprintf(strArg(args[0]), args[1].([]Value))
	}
	in["fmt.Sprint"] = func(c *PathCtx, fr *frame, args []Value) Value {
		var r *Term = mkStr("")
		for _, a := range args[0].([]Value) {
			r = tConcat(r, c.fmtValue(a.(Iface), 'v'))
		}
		return r
	}
	in["fmt.Errorf"] = func(c *PathCtx, fr *frame, args []Value) Value {
		msg := c.sprintfLenient(args[0], args[1].([]Value))
		return c.newError(msg, unwrapArg(args[1].([]Value)))
	}
	in["fmt.Println"] = func(c *PathCtx, fr *frame, args []Value) Value {
		return Tuple{mkBV(64, 0), Iface{}}
	}
	in["fmt.Printf"] = in["fmt.Println"]
	in["errors.New"] = func(c *PathCtx, fr *frame, args []Value) Value {
		return c.newError(args[0].(*Term), nil)
	}
	for _, p := range []string{"github.com/cockroachdb/errors", "github.com/pkg/errors"} {
		in[p+".New"] = in["errors.New"]
		in[p+".Newf"] = in["fmt.Errorf"]
		in[p+".Errorf"] = in["fmt.Errorf"]
		in[p+".Wrap"] = func(c *PathCtx, fr *frame, args []Value) Value {
			inner := args[0].(Iface)
			if inner.T == nil {
				return Iface{}
			}
			return c.newError(tConcat(args[1].(*Term), mkStr(": <wrapped>")), &inner)
		}
		in[p+".Wrapf"] = func(c *PathCtx, fr *frame, args []Value) Value {
			inner := args[0].(Iface)
			if inner.T == nil {
				return Iface{}
			}
			return c.newError(c.sprintfLenient(args[1], args[2].([]Value)), &inner)
		}
		in[p+".WithMessage"] = in[p+".Wrap"]
		in[p+".WithMessagef"] = in[p+".Wrapf"]
		in[p+".WithStack"] = func(c *PathCtx, fr *frame, args []Value) Value { return args[0] }
		in[p+".Is"] = errorsIs
		in[p+".Unwrap"] = func(c *PathCtx, fr *frame, args []Value) Value {
			return c.errorUnwrap(args[0].(Iface))
		}
	}
	in["errors.Is"] = errorsIs
	in["errors.Unwrap"] = func(c *PathCtx, fr *frame, args []Value) Value {
		return c.errorUnwrap(args[0].(Iface))
	}

	// ---------------- sort ----------------
	in["sort.Strings"] = func(c *PathCtx, fr *frame, args []Value) Value {
		sl := args[0].([]Value)
		insertionSort(c, len(sl), func(i, j int) bool {
			return c.branch(tStrLt(sl[i].(*Term), sl[j].(*Term)), "sort.Strings")
		}, func(i, j int) { sl[i], sl[j] = sl[j], sl[i] })
		return nil
	}
	sortSlice := func(c *PathCtx, fr *frame, args []Value) Value {
		sl := args[0].(Iface).V.([]Value)
		less := args[1]
		insertionSort(c, len(sl), func(i, j int) bool {
			r := c.call(fr, fr.callPos, less, []Value{mkBV(64, uint64(i)), mkBV(64, uint64(j))}, nil).(*Term)
			return c.branch(r, "sort.Slice")
		}, func(i, j int) { sl[i], sl[j] = sl[j], sl[i] })
		return nil
	}
	in["sort.Slice"] = sortSlice
	in["sort.SliceStable"] = sortSlice

	// ---------------- milvus retry ----------------
	// retry.Do(ctx, fn, opts...): documented contract = call fn until it returns nil,
	// at most `attempts` times, and return the last error. Modelled with R attempts
	// (entry parameter R, default 2); option constructors are opaque.
	retryPkg := "github.com/milvus-io/milvus/pkg/util/retry"
	in[retryPkg+".Do"] = func(c *PathCtx, fr *frame, args []Value) Value {
		R := c.eng.param(c.entry, "R", 2)
		var last Value = Iface{}
		// the context is checked first: with a finished context the function is never called and
		// ctx.Err() is returned; between two attempts a finished context ends the loop with the
		// last error (retry.go)
		ctxErr := func() Value {
			ci, ok := args[0].(Iface)
			if !ok || ci.T == nil {
				return Iface{}
			}
			f := c.eng.lookupMethod(ci.T, "Err")
			if f == nil || f.Blocks == nil {
				return Iface{}
			}
			return c.call(fr, fr.callPos, f, []Value{ci.V}, nil)
		}
		if e := ctxErr(); !isNilValue(e) {
			return e
		}
		for i := 0; i < R; i++ {
			if i > 0 {
				if e := ctxErr(); !isNilValue(e) {
					return last
				}
			}
			r := c.call(fr, fr.callPos, args[1], nil, nil)
			if isNilValue(r) {
				return Iface{}
			}
			last = r
			if c.exploring {
				c.yield(true)
			}
			// RY=1: the back-off between two attempts lasts until the harness lets time pass
			// (its next vQuiesce); natively the harness' retry settings use a back-off much
			// longer than one vQuiesce. Not applied to the harness goroutine itself.
			if i < R-1 && c.cur != nil && c.cur.id != 0 && c.eng.param(c.entry, "RY", 0) == 1 {
				epoch := c.quiesceEpoch
				c.block(func() bool { return c.quiesceEpoch > epoch }, "retry back-off")
			}
		}
		return last
	}
	for _, n := range []string{"Attempts", "Sleep", "MaxSleepTime", "RetryErr", "AttemptAlways"} {
		in[retryPkg+"."+n] = func(c *PathCtx, fr *frame, args []Value) Value { return (*ssa.Function)(nil) }
	}

	// ---------------- protobuf ----------------
	// proto.Clone: deep copy of the message object graph (documented contract)
	for _, k := range []string{"google.golang.org/protobuf/proto.Clone", "github.com/golang/protobuf/proto.Clone", "github.com/milvus-io/milvus/pkg/util/typeutil.Clone"} {
		in[k] = func(c *PathCtx, fr *frame, args []Value) Value {
			return deepCopy(args[0], map[*Value]*Value{})
		}
	}
	// encoding/base64 on concrete data only
	in["(*encoding/base64.Encoding).DecodeString"] = func(c *PathCtx, fr *frame, args []Value) Value {
		st := args[1].(*Term)
		if !st.Const {
			panic(inconclusive("base64 decode of symbolic string"))
		}
		b, err := base64.StdEncoding.DecodeString(st.S)
		if err != nil {
			return Tuple{[]Value(nil), c.newError(mkStr("illegal base64 data"), nil)}
		}
		out := make([]Value, len(b))
		for i := range b {
			out[i] = mkBV(8, uint64(b[i]))
		}
		return Tuple{out, Iface{}}
	}
	in["(*encoding/base64.Encoding).EncodeToString"] = func(c *PathCtx, fr *frame, args []Value) Value {
		sl := args[1].([]Value)
		b := make([]byte, len(sl))
		for i, e := range sl {
			et := e.(*Term)
			if !et.Const {
				panic(inconclusive("base64 encode of symbolic bytes"))
			}
			b[i] = byte(et.U)
		}
		return mkStr(base64.StdEncoding.EncodeToString(b))
	}

	// ---------------- mapstructure ----------------
	// mapstructure.Decode between a struct and map[string]interface{}: every exported
	// field with a mapstructure tag (not "-") is copied under its tag name, values keep
	// their Go type (the in-memory path; JSON number conversions are outside the model).
	in["github.com/mitchellh/mapstructure.Decode"] = func(c *PathCtx, fr *frame, args []Value) Value {
		inp, outp := args[0].(Iface), args[1].(Iface)
		pt, ok := outp.T.Underlying().(*types.Pointer)
		if !ok || inp.T == nil {
			panic(inconclusive("mapstructure.Decode: unsupported shapes %v -> %v", inp.T, outp.T))
		}
		dst := outp.V.(*Value)
		// a pointer to a struct is dereferenced (mapstructure does the same)
		if ipt, ok := inp.T.Underlying().(*types.Pointer); ok {
			if _, isSt := ipt.Elem().Underlying().(*types.Struct); isSt {
				ip, _ := inp.V.(*Value)
				if ip == nil {
					panic(inconclusive("mapstructure.Decode: nil struct pointer input"))
				}
				inp = Iface{T: ipt.Elem(), V: *ip}
			}
		}
		tagName := func(st *types.Struct, i int) string {
			f := st.Field(i)
			if !f.Exported() {
				return ""
			}
			tag := reflect.StructTag(st.Tag(i)).Get("mapstructure")
			if tag == "-" {
				return ""
			}
			if j := strings.Index(tag, ","); j >= 0 {
				tag = tag[:j]
			}
			if tag == "" {
				tag = f.Name()
			}
			return tag
		}
		if st, ok := inp.T.Underlying().(*types.Struct); ok {
			if mt, ok := pt.Elem().Underlying().(*types.Map); ok {
				m := &Map{kt: mt.Key(), vt: mt.Elem()}
				sv := inp.V.(Struct)
				for i := 0; i < st.NumFields(); i++ {
					if n := tagName(st, i); n != "" {
						m.keys = append(m.keys, mkStr(n))
						m.vals = append(m.vals, Iface{T: st.Field(i).Type(), V: copyVal(sv[i])})
					}
				}
				*dst = m
				return Iface{}
			}
		}
		if _, ok := inp.T.Underlying().(*types.Map); ok {
			if st, ok := pt.Elem().Underlying().(*types.Struct); ok {
				var fill func(m *Map, st *types.Struct, sv Struct)
				// key lookup as mapstructure does it: the exact tag name, else a
				// case-insensitive match among the map's keys
				find := func(m *Map, n string) (Value, bool) {
					if v, ok := m.lookup(c, mkStr(n)); ok {
						return v, true
					}
					for i, k := range m.keys {
						if kt, ok := k.(*Term); ok && kt.Const && strings.EqualFold(kt.S, n) {
							return m.vals[i], true
						} else if ok && !kt.Const {
							panic(inconclusive("mapstructure.Decode: symbolic map key"))
						}
					}
					return nil, false
				}
				fill = func(m *Map, st *types.Struct, sv Struct) {
					for i := 0; i < st.NumFields(); i++ {
						n := tagName(st, i)
						if n == "" {
							continue
						}
						v, ok := find(m, n)
						if !ok {
							continue
						}
						iv := v.(Iface)
						if iv.T == nil {
							continue
						}
						ft := st.Field(i).Type()
						if types.Identical(iv.T, ft) {
							sv[i] = copyVal(iv.V)
							continue
						}
						// a nested generic map decoded into a nested struct
						if fst, ok := ft.Underlying().(*types.Struct); ok {
							if _, isMap := iv.T.Underlying().(*types.Map); isMap {
								if inner, ok := iv.V.(*Map); ok && inner != nil {
									nested := copyVal(sv[i]).(Struct)
									fill(inner, fst, nested)
									sv[i] = nested
									continue
								}
							}
						}
						panic(inconclusive("mapstructure.Decode: field %s has %v, want %v (weak conversions not modelled)", n, iv.T, ft))
					}
				}
				m := inp.V.(*Map)
				sv := (*dst).(Struct)
				fill(m, st, sv)
				return Iface{}
			}
		}
		panic(inconclusive("mapstructure.Decode: unsupported shapes %v -> %v", inp.T, outp.T))
	}

	// ---------------- encoding/json (opaque, injective) ----------------
	// json.Marshal(v) returns a handle (bytes "json#<n>") of a deep snapshot of v;
	// json.Unmarshal restores a deep copy of the snapshot into the pointee. This is the
	// "serialise every field" abstraction: the wire format itself is not modelled.
	jsonReg := func(c *PathCtx) *[]Value {
		if r, ok := c.side["jsonreg"]; ok {
			return r.(*[]Value)
		}
		r := &[]Value{}
		c.side["jsonreg"] = r
		return r
	}
	bytesOf := func(sv string) []Value {
		out := make([]Value, len(sv))
		for i := 0; i < len(sv); i++ {
			out[i] = mkBV(8, uint64(sv[i]))
		}
		return out
	}
	jsonMarshal := func(c *PathCtx, fr *frame, args []Value) Value {
		reg := jsonReg(c)
		*reg = append(*reg, deepCopy(args[0], map[*Value]*Value{}))
		return Tuple{bytesOf(fmt.Sprintf("json#%d", len(*reg))), Iface{}}
	}
	in["encoding/json.Marshal"] = jsonMarshal
	in["github.com/goccy/go-json.Marshal"] = jsonMarshal
	jsonUnmarshal := func(c *PathCtx, fr *frame, args []Value) Value {
		data := args[0].([]Value)
		bs := make([]byte, len(data))
		for i, e := range data {
			et := e.(*Term)
			if !et.Const {
				panic(inconclusive("json.Unmarshal of symbolic bytes"))
			}
			bs[i] = byte(et.U)
		}
		dst := args[1].(Iface)
		dp, ok := dst.V.(*Value)
		if !ok || dp == nil {
			return c.newError(mkStr("json: Unmarshal(non-pointer)"), nil)
		}
		// JSON literals (documented encoding/json behaviour): null sets a pointer to nil and
		// leaves a struct untouched; {} leaves a struct untouched (allocating it behind a nil
		// pointer); any other literal cannot be stored into a struct
		if lit := strings.TrimSpace(string(bs)); !strings.HasPrefix(lit, "json#") {
			isLit := false
			for _, l := range []string{"null", "{}", "[]", "0", "\"\"", "true", "false"} {
				isLit = isLit || lit == l
			}
			if pt, ok := dst.T.Underlying().(*types.Pointer); ok && isLit {
				inner, innerIsPtr := pt.Elem().Underlying().(*types.Pointer)
				var target types.Type = pt.Elem()
				if innerIsPtr {
					target = inner.Elem()
				}
				if _, isStruct := target.Underlying().(*types.Struct); isStruct {
					switch {
					case lit == "null":
						if innerIsPtr {
							*dp = (*Value)(nil)
						}
						return Iface{}
					case lit == "{}":
						if innerIsPtr {
							if cur, _ := (*dp).(*Value); cur == nil {
								cell := new(Value)
								*cell = zero(target)
								*dp = cell
							}
						}
						return Iface{}
					default:
						return c.newError(mkStr("json: cannot unmarshal the literal into a Go struct"), nil)
					}
				}
			}
		}
		var n int
		if _, err := fmt.Sscanf(string(bs), "json#%d", &n); err != nil || n < 1 || n > len(*jsonReg(c)) {
			return c.newError(mkStr("invalid json"), nil)
		}
		src := (*jsonReg(c))[n-1].(Iface)
		cp := deepCopy(src, map[*Value]*Value{}).(Iface)
		// stored *T or T into *T
		if sp, ok := cp.V.(*Value); ok && types.Identical(src.T, dst.T) {
			if sp != nil {
				*dp = *sp
			}
			return Iface{}
		}
		if pt, ok := dst.T.Underlying().(*types.Pointer); ok && types.Identical(pt.Elem(), src.T) {
			*dp = cp.V
			return Iface{}
		}
		// a JSON object decoded into a different struct type: encoding/json fills the
		// fields whose names (and types) match and ignores the rest
		if spt, ok := src.T.Underlying().(*types.Pointer); ok {
			if dpt, ok := dst.T.Underlying().(*types.Pointer); ok {
				sst, ok1 := spt.Elem().Underlying().(*types.Struct)
				dst2, ok2 := dpt.Elem().Underlying().(*types.Struct)
				if sp, ok3 := cp.V.(*Value); ok1 && ok2 && ok3 && sp != nil {
					sv := (*sp).(Struct)
					dv := (*dp).(Struct)
					for i := 0; i < dst2.NumFields(); i++ {
						for j := 0; j < sst.NumFields(); j++ {
							if dst2.Field(i).Exported() && dst2.Field(i).Name() == sst.Field(j).Name() && types.Identical(dst2.Field(i).Type(), sst.Field(j).Type()) {
								dv[i] = sv[j]
							}
						}
					}
					return Iface{}
				}
			}
		}
		panic(inconclusive("json.Unmarshal: stored %v into %v", src.T, dst.T))
	}
	in["encoding/json.Unmarshal"] = jsonUnmarshal
	in["github.com/goccy/go-json.Unmarshal"] = jsonUnmarshal

	// util.ToString / util.ToBytes are unsafe casts; semantically plain conversions
	in["github.com/zilliztech/milvus-cdc/core/util.ToString"] = func(c *PathCtx, fr *frame, args []Value) Value {
		sl := args[0].([]Value)
		bs := make([]byte, len(sl))
		for i, e := range sl {
			et := e.(*Term)
			if !et.Const {
				panic(inconclusive("util.ToString of symbolic bytes"))
			}
			bs[i] = byte(et.U)
		}
		return mkStr(string(bs))
	}
	in["github.com/zilliztech/milvus-cdc/core/util.ToBytes"] = func(c *PathCtx, fr *frame, args []Value) Value {
		st := args[0].(*Term)
		if !st.Const {
			panic(inconclusive("util.ToBytes of symbolic string"))
		}
		return bytesOf(st.S)
	}

	// path.Join: exact for concrete arguments; for symbolic components the claim is
	// restricted (asserted as a path assumption, counted in the evidence) to components
	// that path.Clean leaves untouched: no '.', no "//", no trailing '/'.
	in["path.Join"] = func(c *PathCtx, fr *frame, args []Value) Value {
		parts := args[0].([]Value)
		allConst := true
		for _, p := range parts {
			if !p.(*Term).Const {
				allConst = false
			}
		}
		if allConst {
			ss := make([]string, len(parts))
			for i, p := range parts {
				ss[i] = p.(*Term).S
			}
			return mkStr(path.Join(ss...))
		}
		var r *Term
		for _, p := range parts {
			t := p.(*Term)
			if t.Const {
				if t.S == "" {
					continue
				}
				if path.Clean(t.S) != t.S || strings.HasSuffix(t.S, "/") {
					panic(inconclusive("path.Join: concrete component %q needs cleaning next to symbolic ones", t.S))
				}
			} else {
				ok := tAnd(tNot(tStrContains(t, mkStr("."))), tAnd(tNot(tStrContains(t, mkStr("//"))), tNot(tStrSuffixOf(mkStr("/"), t))))
				c.assertTerm(ok)
				c.res.Reached["assume:path.Join-component-is-clean"]++
				if c.branch(tEq(t, mkStr("")), "path.Join-empty") {
					continue
				}
			}
			if r == nil {
				r = t
			} else {
				r = tConcat(tConcat(r, mkStr("/")), t)
			}
		}
		if r == nil {
			return mkStr("")
		}
		return r
	}

	// context constructors: cancellation/deadlines are not modelled (no timers)
	noopCancel := &NativeFunc{Name: "cancel", Fn: func(c *PathCtx, fr *frame, args []Value) Value { return nil }}
	for _, n := range []string{"context.WithCancel", "context.WithTimeout", "context.WithDeadline"} {
		in[n] = func(c *PathCtx, fr *frame, args []Value) Value { return Tuple{args[0], noopCancel} }
	}

	// ---------------- milvus lock.KeyLock (keyed RW lock) ----------------
	klPkg := "github.com/milvus-io/milvus/pkg/util/lock"
	keyLockOf := func(c *PathCtx, recv Value, key Value) *lockState {
		kt, ok := key.(*Term)
		if !ok || !kt.Const {
			panic(inconclusive("KeyLock with symbolic key"))
		}
		type klKey struct {
			p *Value
			k string
		}
		id := klKey{recv.(*Value), kt.S}
		if v, ok := c.side[id]; ok {
			return v.(*lockState)
		}
		ls := &lockState{}
		c.side[id] = ls
		return ls
	}
	in["(*"+klPkg+".KeyLock[K]).Lock"] = func(c *PathCtx, fr *frame, args []Value) Value {
		ls := keyLockOf(c, args[0], args[1])
		if c.exploring {
			c.yield(false)
		}
		c.block(func() bool { return !ls.writer && ls.readers == 0 }, "KeyLock.Lock")
		ls.writer, ls.owner = true, c.cur
		return nil
	}
	in["(*"+klPkg+".KeyLock[K]).Unlock"] = func(c *PathCtx, fr *frame, args []Value) Value {
		ls := keyLockOf(c, args[0], args[1])
		ls.writer, ls.owner = false, nil
		if c.exploring {
			c.yield(false)
		}
		return nil
	}
	in["(*"+klPkg+".KeyLock[K]).RLock"] = func(c *PathCtx, fr *frame, args []Value) Value {
		ls := keyLockOf(c, args[0], args[1])
		if c.exploring {
			c.yield(false)
		}
		c.block(func() bool { return !ls.writer }, "KeyLock.RLock")
		ls.readers++
		return nil
	}
	in["(*"+klPkg+".KeyLock[K]).RUnlock"] = func(c *PathCtx, fr *frame, args []Value) Value {
		ls := keyLockOf(c, args[0], args[1])
		if ls.readers > 0 {
			ls.readers--
		}
		if c.exploring {
			c.yield(false)
		}
		return nil
	}
	in[klPkg+".NewKeyLock"] = func(c *PathCtx, fr *frame, args []Value) Value {
		pt := fr.fn.Signature.Results().At(0).Type().Underlying().(*types.Pointer)
		p := new(Value)
		*p = zero(pt.Elem())
		return p
	}

	// ---------------- misc ----------------
	in["runtime.Gosched"] = func(c *PathCtx, fr *frame, args []Value) Value { c.yield(false); return nil }
	in["os.Getenv"] = func(c *PathCtx, fr *frame, args []Value) Value { return mkStr("") }
	in["math.MaxUint64"] = nil
	delete(in, "math.MaxUint64")
}

func insertionSort(c *PathCtx, n int, less func(i, j int) bool, swap func(i, j int)) {
	// the algorithm sort.Slice uses for n <= 12 (insertionSortLessFunc); stable
	if n > 12 {
		panic(inconclusive("sort of %d > 12 elements", n))
	}
	for i := 1; i < n; i++ {
		for j := i; j > 0 && less(j, j-1); j-- {
			swap(j, j-1)
		}
	}
}

// fmtInt: decimal formatting. Concrete when possible; otherwise an
// uninterpreted injective function (axiomatised by its inverse).
func fmtInt(c *PathCtx, t *Term, signed bool) *Term {
	if t.Const {
		if signed {
			return mkStr(strconv.FormatInt(signExt(t.U, t.Sort.W), 10))
		}
		return mkStr(strconv.FormatUint(t.U, 10))
	}
	w := t.Sort.W
	tt := t
	if w < 64 {
		tt = tResize(t, 64, signed)
	}
	D := c.eng.cfg.IntFormatDigits
	if c.entry != nil && c.entry.IntFormatDigits > 0 {
		D = c.entry.IntFormatDigits
	}
	if D > 0 {
		// exact decimal rendering for values assumed to lie in [0, 10^D): digits by
		// narrow bit-vector division, characters by case analysis. The range restriction
		// is a path assumption (reported in the evidence).
		if D > 4 {
			panic(inconclusive("int_format_digits > 4 not supported"))
		}
		lim := uint64(1)
		for i := 0; i < D; i++ {
			lim *= 10
		}
		c.assertTerm(tBVCmp("bvult", tt, mkBV(64, lim)))
		c.res.Reached[fmt.Sprintf("assume:formatted-integer-in-[0,10^%d)", D)]++
		if c.pos >= len(c.prefix) {
			if r := c.checkSat(); r == "unsat" {
				c.abort("infeasible", "formatted integer outside the modelled range")
			}
		}
		x := tExtract(15, 0, tt)
		digit := func(d *Term) *Term {
			// one character: code point 48+d
			return mkApp(SStr, "str.from_code", tIntOp("+", mkIntC(48), tBV2Int(tExtract(3, 0, d))))
		}
		// the number of digits is a fork (at most D paths), the digits stay symbolic
		n := 1
		pow := uint64(10)
		for n < D && !c.branch(tBVCmp("bvult", x, mkBV(16, pow)), "fmt-digits") {
			n++
			pow *= 10
		}
		var r *Term
		pow = 1
		for i := 0; i < n; i++ {
			di := tBV2("bvurem", tBV2("bvudiv", x, mkBV(16, pow)), mkBV(16, 10))
			if i == 0 {
				r = digit(di)
			} else {
				r = tConcat(digit(di), r)
			}
			pow *= 10
		}
		return r
	}
	fn := "fmtU64"
	if signed {
		fn = "fmtI64"
	}
	if c.side["fmtdecl"+fn] == nil {
		c.side["fmtdecl"+fn] = true
		c.solver.send(fmt.Sprintf("(declare-fun %s ((_ BitVec 64)) String)", fn))
		c.solver.send(fmt.Sprintf("(declare-fun %s_inv (String) (_ BitVec 64))", fn))
	}
	r := mkApp(SStr, fn, tt)
	// injectivity via inverse, digits only, non-empty
	c.assertTerm(tEq(mkApp(SBV(64), fn+"_inv", r), tt))
	c.solver.send(fmt.Sprintf("(assert (str.in_re %s (re.++ (re.opt (str.to_re \"-\")) (re.+ (re.range \"0\" \"9\")))))", c.pr.ref(r)))
	return r
}

// ---------- fmt ----------

func (c *PathCtx) sprintf(format string, args []Value) *Term {
	var r *Term = mkStr("")
	ai := 0
	for i := 0; i < len(format); i++ {
		ch := format[i]
		if ch != '%' {
			j := i
			for j < len(format) && format[j] != '%' {
				j++
			}
			r = tConcat(r, mkStr(format[i:j]))
			i = j - 1
			continue
		}
		i++
		if i >= len(format) {
			break
		}
		// flags/width are only accepted when absent
		verb := format[i]
		if verb == '%' {
			r = tConcat(r, mkStr("%"))
			continue
		}
		if verb == '+' || verb == '#' || (verb >= '0' && verb <= '9') || verb == '.' || verb == '-' {
			panic(inconclusive("fmt verb with flags in %q", format))
		}
		if ai >= len(args) {
			r = tConcat(r, mkStr("%!"+string(verb)+"(MISSING)"))
			continue
		}
		r = tConcat(r, c.fmtValue(args[ai].(Iface), verb))
		ai++
	}
	return r
}

// sprintfLenient never fails: error messages are opaque to the properties.
func (c *PathCtx) sprintfLenient(format Value, args []Value) (res *Term) {
	defer func() {
		if r := recover(); r != nil {
			if pa, ok := r.(pathAbort); ok && pa.kind == "inconclusive" {
				res = mkStr("<formatted message>")
				return
			}
			if _, ok := r.(engineError); ok {
				res = mkStr("<formatted message>")
				return
			}
			panic(r)
		}
	}()
	f, ok := format.(*Term)
	if !ok || !f.Const {
		return mkStr("<formatted message>")
	}
	return c.sprintf(f.S, args)
}

func (c *PathCtx) fmtValue(a Iface, verb byte) *Term {
	if a.T == nil {
		return mkStr("<nil>")
	}
	switch v := a.V.(type) {
	case *Term:
		switch v.Sort.K {
		case KStr:
			if verb == 'q' {
				if v.Const {
					return mkStr(strconv.Quote(v.S))
				}
				return tConcat(tConcat(mkStr(`"`), v), mkStr(`"`))
			}
			return v
		case KBV:
			_, signed, _ := intInfo(a.T)
			if verb == 'x' {
				if v.Const {
					return mkStr(strconv.FormatUint(v.U, 16))
				}
				panic(inconclusive("%%x of symbolic"))
			}
			return fmtInt(c, v, signed)
		case KBool:
			if v.Const {
				return mkStr(strconv.FormatBool(v.Bool()))
			}
			return tIte(v, mkStr("true"), mkStr("false"))
		case KFloat:
			return mkStr(strconv.FormatFloat(v.F, 'g', -1, 64))
		}
	}
	// []string prints as [a b c]
	if sl, ok := a.V.([]Value); ok {
		if st, ok := a.T.Underlying().(*types.Slice); ok && isString(st.Elem()) {
			var r *Term = mkStr("[")
			for i, e := range sl {
				if i > 0 {
					r = tConcat(r, mkStr(" "))
				}
				r = tConcat(r, e.(*Term))
			}
			return tConcat(r, mkStr("]"))
		}
	}
	// error / Stringer: call the method
	if m := c.eng.lookupMethod(a.T, "Error"); m != nil {
		return c.callSSA(nil, 0, m, []Value{a.V}, nil).(*Term)
	}
	if m := c.eng.lookupMethod(a.T, "String"); m != nil && c.eng.classify(m) == clsFollow {
		return c.callSSA(nil, 0, m, []Value{a.V}, nil).(*Term)
	}
	panic(inconclusive("fmt of %v (%T)", a.T, a.V))
}

// ---------- errors ----------

// newError builds an *errors.errorString-like object. We use a dedicated
// engine-side representation: Iface{T: *errors.errorString, V: &Struct{msg}}
// plus a side-table entry for the wrapped error.
func (c *PathCtx) newError(msg *Term, wrapped *Iface) Value {
	t := c.eng.errorStringPtrType()
	var cell Value = Struct{msg}
	p := &cell
	if wrapped != nil {
		c.side[p] = *wrapped
	}
	return Iface{T: t, V: p}
}

func unwrapArg(args []Value) *Iface {
	for _, a := range args {
		if i, ok := a.(Iface); ok && i.T != nil {
			if isErrorType(i.T) {
				return &i
			}
		}
	}
	return nil
}

var errorIface = types.Universe.Lookup("error").Type().Underlying().(*types.Interface)

func isErrorType(t types.Type) bool { return types.Implements(t, errorIface) }

func (c *PathCtx) errorUnwrap(e Iface) Value {
	if e.T == nil {
		return Iface{}
	}
	if p, ok := e.V.(*Value); ok {
		if w, ok := c.side[p]; ok {
			return w.(Iface)
		}
	}
	if m := c.eng.lookupMethod(e.T, "Unwrap"); m != nil && c.eng.classify(m) == clsFollow {
		if m.Signature.Results().Len() == 1 {
			if r, ok := c.callSSA(nil, 0, m, []Value{e.V}, nil).(Iface); ok {
				return r
			}
		}
	}
	return Iface{}
}

func errorsIs(c *PathCtx, fr *frame, args []Value) Value {
	e, target := args[0].(Iface), args[1].(Iface)
	for depth := 0; depth < 10; depth++ {
		if e.T == nil {
			return mkBool(target.T == nil)
		}
		if target.T != nil && types.Identical(e.T, target.T) {
			if eq := equals(e.T, e.V, target.V); eq.Const && eq.Bool() {
				return tTrue
			}
		}
		// an error type may define its own Is(error) bool (errors.Is consults it)
		if m := c.eng.lookupMethod(e.T, "Is"); m != nil && c.eng.classify(m) == clsFollow && m.Signature.Params().Len() == 1 && m.Signature.Results().Len() == 1 {
			if r, ok := c.callSSA(nil, 0, m, []Value{e.V, target}, nil).(*Term); ok {
				if c.branch(r, "errors.Is:method") {
					return tTrue
				}
			}
		}
		e, _ = c.errorUnwrap(e).(Iface)
	}
	return tFalse
}

// lookupMethod is prog.LookupMethod for an exported method name that may be absent.
func (e *Engine) lookupMethod(T types.Type, name string) *ssa.Function {
	if T == nil {
		return nil
	}
	if sel := e.prog.MethodSets.MethodSet(T).Lookup(nil, name); sel == nil {
		return nil
	}
	return e.prog.LookupMethod(T, nil, name)
}

func (e *Engine) errorStringPtrType() types.Type {
	if e.errStrT != nil {
		return e.errStrT
	}
	for _, p := range e.prog.AllPackages() {
		if p.Pkg.Path() == "errors" {
			e.errStrT = types.NewPointer(p.Type("errorString").Type())
			return e.errStrT
		}
	}
	panic(engineErr("package errors not loaded"))
}

var _ = sort.Strings
var _ *ssa.Function

// deepCopy copies a value graph: pointers, slices, maps and aggregates are
// duplicated (sharing and cycles preserved through memo); scalars are immutable.
func deepCopy(v Value, memo map[*Value]*Value) Value {
	switch v := v.(type) {
	case *Value:
		if v == nil {
			return v
		}
		if n, ok := memo[v]; ok {
			return n
		}
		n := new(Value)
		memo[v] = n
		*n = deepCopy(*v, memo)
		return n
	case Struct:
		n := make(Struct, len(v))
		for i := range v {
			n[i] = deepCopy(v[i], memo)
		}
		return n
	case Array:
		n := make(Array, len(v))
		for i := range v {
			n[i] = deepCopy(v[i], memo)
		}
		return n
	case []Value:
		if v == nil {
			return v
		}
		n := make([]Value, len(v), cap(v))
		for i := range v {
			n[i] = deepCopy(v[i], memo)
		}
		return n
	case Iface:
		return Iface{T: v.T, V: deepCopy(v.V, memo)}
	case *Map:
		if v == nil {
			return v
		}
		n := &Map{kt: v.kt, vt: v.vt}
		for i := range v.keys {
			n.keys = append(n.keys, deepCopy(v.keys[i], memo))
			n.vals = append(n.vals, deepCopy(v.vals[i], memo))
		}
		return n
	}
	return v
}
