package main

// The harness runtime: v* functions. Under the executor they are intrinsics;
// natively (replay) the Go bodies below read the solver's model from the file
// named by VERIF_REPLAY.

import (
	"fmt"
	"os"
	"strings"
)

const rtSource = `//go:build verif

package PKG

import (
	"encoding/json"
	"fmt"
	"os"
	"runtime"
	"strconv"
	"strings"
	"sync"
	"syscall"
	"time"
)

// vBusy: natively, is the (otherwise idle) process burning CPU? The harness calls it
// when all its own work is done; a spinning background goroutine keeps one core busy.
func vBusy() bool {
	time.Sleep(150 * time.Millisecond)
	var a, b syscall.Rusage
	syscall.Getrusage(syscall.RUSAGE_SELF, &a)
	t0 := time.Now()
	time.Sleep(300 * time.Millisecond)
	syscall.Getrusage(syscall.RUSAGE_SELF, &b)
	cpu := time.Duration(b.Utime.Nano()-a.Utime.Nano()) + time.Duration(b.Stime.Nano()-a.Stime.Nano())
	return cpu > time.Since(t0)/2
}

// vGoID identifies the running goroutine (natively parsed from the stack header; under
// the executor the goroutine's creation index).
func vGoID() int {
	var buf [64]byte
	n := runtime.Stack(buf[:], false)
	f := strings.Fields(string(buf[:n]))
	if len(f) >= 2 {
		id, _ := strconv.Atoi(f[1])
		return id
	}
	return -1
}

var vLogOff int64

const vLogFile = "/tmp/cdc_log/cdc.log" // core/log writes here (and to stdout)

// vLogMark / vLogLeaks: natively the log FILE written by the real zap logger is read
// back; under the executor every value handed to a logging sink is examined.
func vLogMark() {
	vLogOff = 0
	if fi, err := os.Stat(vLogFile); err == nil {
		vLogOff = fi.Size()
	}
}
func vLogLeaks(secret string) bool {
	b, _ := os.ReadFile(vLogFile)
	if int64(len(b)) < vLogOff {
		vLogOff = 0
	}
	return secret != "" && strings.Contains(string(b[vLogOff:]), secret)
}
func vLeaks(v interface{}, secret string) bool {
	b, _ := json.Marshal(v)
	return secret != "" && strings.Contains(string(b), secret)
}

type vReplayFile struct {
	Entry   string                 ` + "`json:\"entry\"`" + `
	Assert  string                 ` + "`json:\"assert\"`" + `
	Values  map[string]interface{} ` + "`json:\"values\"`" + `
	Params  map[string]int         ` + "`json:\"params\"`" + `
}

var (
	vMu      sync.Mutex
	vRep     *vReplayFile
	vSeen    = map[string]int{}
	vFailed  []string
	vInfeasible bool
)

// vLoadFrom (re)initialises the replay state from one file (used when several
// sampled path models are replayed in one test process).
func vLoadFrom(path string) *vReplayFile {
	vMu.Lock()
	vSeen = map[string]int{}
	vFailed = nil
	vInfeasible = false
	vMu.Unlock()
	vRep = &vReplayFile{Values: map[string]interface{}{}, Params: map[string]int{}}
	b, err := os.ReadFile(path)
	if err != nil {
		panic(err)
	}
	if err := json.Unmarshal(b, vRep); err != nil {
		panic(err)
	}
	return vRep
}

func vLoad() *vReplayFile {
	if vRep != nil {
		return vRep
	}
	vRep = &vReplayFile{Values: map[string]interface{}{}, Params: map[string]int{}}
	if p := os.Getenv("VERIF_REPLAY"); p != "" {
		b, err := os.ReadFile(p)
		if err != nil {
			panic(err)
		}
		if err := json.Unmarshal(b, vRep); err != nil {
			panic(err)
		}
	}
	return vRep
}

func vKey(name string) string {
	vMu.Lock()
	defer vMu.Unlock()
	k, dup := vSeen[name]
	if dup {
		vSeen[name] = k + 1
		return fmt.Sprintf("%s#%d", name, k+1)
	}
	vSeen[name] = 0
	return name
}

func vRaw(name string) (interface{}, bool) {
	r := vLoad()
	v, ok := r.Values[vKey(name)]
	return v, ok
}

func vU64(name string) uint64 {
	v, ok := vRaw(name)
	if !ok {
		return 0
	}
	switch x := v.(type) {
	case string:
		u, _ := strconv.ParseUint(x, 10, 64)
		return u
	case float64:
		return uint64(x)
	}
	return 0
}
func vI64(name string) int64 { return int64(vU64(name)) }
func vInt(name string) int   { return int(vU64(name)) }
func vU32(name string) uint32 { return uint32(vU64(name)) }
func vI32(name string) int32 { return int32(vU64(name)) }
func vBool(name string) bool {
	v, ok := vRaw(name)
	if !ok {
		return false
	}
	b, _ := v.(bool)
	return b
}
func vStr(name string, maxLen int) string {
	v, ok := vRaw(name)
	if !ok {
		return ""
	}
	s, _ := v.(string)
	return s
}
func vChoice(name string, n int) int {
	v, ok := vRaw("choice:" + name)
	if !ok {
		return 0
	}
	switch x := v.(type) {
	case float64:
		return int(x)
	case string:
		i, _ := strconv.Atoi(x)
		return i
	}
	return 0
}
func vParam(name string, def int) int {
	if v, ok := vLoad().Params[name]; ok {
		return v
	}
	return def
}
func vAssume(cond bool) {
	if !cond {
		vInfeasible = true
		fmt.Println("VERIF-REPLAY: assumption-false")
	}
}
func vAssert(cond bool, id string) {
	if !cond {
		vMu.Lock()
		vFailed = append(vFailed, id)
		vMu.Unlock()
		fmt.Println("VERIF-REPLAY: assert-failed " + id)
	}
}
func vKnown(id string, pred bool) {}
func vReach(label string)          {}
func vObserve(label string, vals ...interface{}) {
	fmt.Println("VERIF-OBSERVE:", label, fmt.Sprint(vals...))
}
// vChars: the bytes of s as one-character strings (under the executor: the number of
// characters of every symbolic component of s is forked over 0..maxLen)
func vChars(s string, maxLen int) []string {
	out := make([]string, 0, len(s))
	for i := 0; i < len(s); i++ {
		out = append(out, s[i:i+1])
	}
	return out
}
// vLikeElems: does s match the pattern given as elements (kinds[i] = 0: the literal lits[i],
// 1: any one character, 2: any string)?
func vLikeElems(kinds []int, lits []string, s string) bool {
	if len(kinds) == 0 {
		return s == ""
	}
	switch kinds[0] {
	case 2:
		for i := 0; i <= len(s); i++ {
			if vLikeElems(kinds[1:], lits[1:], s[i:]) {
				return true
			}
		}
		return false
	case 1:
		return len(s) > 0 && vLikeElems(kinds[1:], lits[1:], s[1:])
	}
	l := lits[0]
	return len(s) >= len(l) && s[:len(l)] == l && vLikeElems(kinds[1:], lits[1:], s[len(l):])
}
func vYield()   {}
func vQuiesce() { time.Sleep(150 * time.Millisecond) }
func vAnd(a, b bool) bool         { return a && b }
func vOr(a, b bool) bool          { return a || b }
func vImplies(a, b bool) bool     { return !a || b }
func vIteU64(c bool, a, b uint64) uint64 {
	if c {
		return a
	}
	return b
}
func vIteStr(c bool, a, b string) string {
	if c {
		return a
	}
	return b
}
func vSymbolic() bool { return false }
`

// rtIntrinsics are matched by bare function name inside followed packages.
var rtIntrinsics = map[string]intrinsicFn{}

func init() {
	bv := func(w int) intrinsicFn {
		return func(c *PathCtx, fr *frame, args []Value) Value {
			return c.newVar(SBV(w), strArg(args[0]))
		}
	}
	rtIntrinsics["vU64"] = bv(64)
	rtIntrinsics["vI64"] = bv(64)
	rtIntrinsics["vInt"] = bv(64)
	rtIntrinsics["vU32"] = bv(32)
	rtIntrinsics["vI32"] = bv(32)
	rtIntrinsics["vBool"] = func(c *PathCtx, fr *frame, args []Value) Value {
		return c.newVar(SBool, strArg(args[0]))
	}
	rtIntrinsics["vStr"] = func(c *PathCtx, fr *frame, args []Value) Value {
		name := strArg(args[0])
		maxLen := args[1].(*Term)
		if !maxLen.Const {
			panic(inconclusive("vStr: symbolic maxLen"))
		}
		s := c.newVar(SStr, name)
		c.assertTerm(tIntCmp("<=", tStrLenInt(s), mkIntC(maxLen.Int64())))
		alpha := c.eng.cfg.StrAlphabet
		if alpha != "" {
			// (str.in_re s (re.* (re.union ...)))
			var parts []string
			for i := 0; i < len(alpha); i++ {
				parts = append(parts, "(str.to_re "+smtStrLit(string(alpha[i]))+")")
			}
			un := parts[0]
			if len(parts) > 1 {
				un = "(re.union " + strings.Join(parts, " ") + ")"
			}
			c.solver.send(fmt.Sprintf("(assert (str.in_re %s (re.* %s)))", s.Name, un))
		}
		return s
	}
	rtIntrinsics["vChoice"] = func(c *PathCtx, fr *frame, args []Value) Value {
		name := strArg(args[0])
		n := args[1].(*Term)
		if !n.Const {
			panic(inconclusive("vChoice: symbolic n"))
		}
		k := c.choose(int(n.Int64()), "choice:"+name)
		c.recordChoiceValue("choice:"+name, k)
		return mkBV(64, uint64(k))
	}
	rtIntrinsics["vParam"] = func(c *PathCtx, fr *frame, args []Value) Value {
		name := strArg(args[0])
		def := int(args[1].(*Term).Int64())
		return mkBV(64, uint64(int64(c.eng.param(c.entry, name, def))))
	}
	rtIntrinsics["vAssume"] = func(c *PathCtx, fr *frame, args []Value) Value {
		cond := args[0].(*Term)
		if cond.Const {
			if cond.U == 0 {
				c.abort("infeasible", "vAssume(false)")
			}
			return nil
		}
		// in the decision prefix the path is known feasible up to the last decision;
		// an assumption can still cut it, so check.
		c.assertTerm(cond)
		if c.pos >= len(c.prefix) {
			if r := c.checkSat(); r == "unsat" {
				c.abort("infeasible", "vAssume cut the path")
			}
		}
		return nil
	}
	// vChars(s, maxLen): flatten the concatenation tree of s; constant parts give concrete
	// characters, every symbolic component t is forked over its length 0..maxLen and gives
	// the terms (str.substr t i 1).
	rtIntrinsics["vChars"] = func(c *PathCtx, fr *frame, args []Value) Value {
		s := args[0].(*Term)
		ml := args[1].(*Term)
		if !ml.Const {
			panic(inconclusive("vChars: symbolic maxLen"))
		}
		out := charsOfTerm(c, s, ml.Int64())
		if out == nil {
			out = []Value{}
		}
		return out
	}
	rtIntrinsics["vLikeElems"] = func(c *PathCtx, fr *frame, args []Value) Value {
		ks, _ := args[0].([]Value)
		ls, _ := args[1].([]Value)
		kinds := make([]int, len(ks))
		lits := make([]*Term, len(ks))
		for i := range ks {
			kt := ks[i].(*Term)
			if !kt.Const {
				panic(inconclusive("vLikeElems: symbolic element kind"))
			}
			kinds[i] = int(kt.Int64())
			lits[i] = ls[i].(*Term)
		}
		return tLike(args[2].(*Term), kinds, lits)
	}
	rtIntrinsics["vAssert"] = func(c *PathCtx, fr *frame, args []Value) Value {
		c.doAssert(fr, args[0].(*Term), strArg(args[1]))
		return nil
	}
	rtIntrinsics["vKnown"] = func(c *PathCtx, fr *frame, args []Value) Value {
		c.pendingKF = append(c.pendingKF, kfPred{strArg(args[0]), args[1].(*Term)})
		return nil
	}
	rtIntrinsics["vReach"] = func(c *PathCtx, fr *frame, args []Value) Value {
		c.res.Reached[strArg(args[0])]++
		return nil
	}
	rtIntrinsics["vObserve"] = func(c *PathCtx, fr *frame, args []Value) Value {
		if os.Getenv("SYMGO_OBSERVE") != "" {
			fmt.Fprintf(os.Stderr, "OBSERVE %v\n", args)
		}
		return nil
	}
	rtIntrinsics["vYield"] = func(c *PathCtx, fr *frame, args []Value) Value {
		c.yield(false)
		return nil
	}
	rtIntrinsics["vQuiesce"] = func(c *PathCtx, fr *frame, args []Value) Value {
		c.quiesce()
		return nil
	}
	rtIntrinsics["vAnd"] = func(c *PathCtx, fr *frame, args []Value) Value {
		return tAnd(args[0].(*Term), args[1].(*Term))
	}
	rtIntrinsics["vOr"] = func(c *PathCtx, fr *frame, args []Value) Value {
		return tOr(args[0].(*Term), args[1].(*Term))
	}
	rtIntrinsics["vImplies"] = func(c *PathCtx, fr *frame, args []Value) Value {
		return tImplies(args[0].(*Term), args[1].(*Term))
	}
	rtIntrinsics["vIteU64"] = func(c *PathCtx, fr *frame, args []Value) Value {
		return tIte(args[0].(*Term), args[1].(*Term), args[2].(*Term))
	}
	rtIntrinsics["vIteStr"] = func(c *PathCtx, fr *frame, args []Value) Value {
		return tIte(args[0].(*Term), args[1].(*Term), args[2].(*Term))
	}
	// vBusy(): after letting every other goroutine run to quiescence, is some goroutine
	// spinning (see the busy-loop detection in select)?
	rtIntrinsics["vBusy"] = func(c *PathCtx, fr *frame, args []Value) Value {
		c.quiesce()
		if b, ok := c.side["busy"].(string); ok && b != "" {
			c.res.Reached["busy-goroutine:"+b]++
			return tTrue
		}
		return tFalse
	}
	rtIntrinsics["vGoID"] = func(c *PathCtx, fr *frame, args []Value) Value {
		return mkBV(64, uint64(c.cur.id))
	}
	rtIntrinsics["vSymbolic"] = func(c *PathCtx, fr *frame, args []Value) Value { return tTrue }
}

func strArg(v Value) string {
	t, ok := v.(*Term)
	if !ok || !t.Const || t.Sort.K != KStr {
		panic(engineErr("expected concrete string argument, got %s", valString(v)))
	}
	return t.S
}

func (c *PathCtx) recordChoiceValue(name string, k int) {
	if c.side["choicevals"] == nil {
		c.side["choicevals"] = map[string]int{}
	}
	m := c.side["choicevals"].(map[string]int)
	key := name
	if n, dup := c.varNames[name]; dup {
		c.varNames[name] = n + 1
		key = fmt.Sprintf("%s#%d", name, n+1)
	} else {
		c.varNames[name] = 0
	}
	m[key] = k
}

// doAssert is the proof obligation: pathcond ∧ ¬cond must be unsat.
func (c *PathCtx) doAssert(fr *frame, cond *Term, id string) {
	kfs := c.pendingKF
	c.pendingKF = nil
	c.res.Reached["assert:"+id]++
	c.res.Obligations++
	if cond.Const && cond.U != 0 {
		c.res.Discharged++
		return
	}
	neg := tNot(cond)
	// known findings: only those listed in known_findings.json are honoured
	var active []kfPred
	for _, k := range kfs {
		if c.eng.knownActive(id, k.id) {
			active = append(active, k)
		}
	}
	rest := neg
	for _, k := range active {
		if r := c.checkSat(neg, k.pred); r == "sat" {
			c.res.KnownSeen = append(c.res.KnownSeen, k.id)
		}
		rest = tAnd(rest, tNot(k.pred))
	}
	c.deciding = true
	r := c.checkSat(rest)
	c.deciding = false
	switch {
	case r == "unsat":
		c.res.Discharged++
	case r == "sat":
		m, _ := c.model(rest)
		v := &Violation{AssertID: id, Kind: "assert", Model: m, Choices: append([]ChoiceRec{}, c.choices...), Decisions: append([]int{}, c.decisions...)}
		if fr != nil && fr.caller != nil {
			v.Pos = posString(c.eng.prog.Fset, fr.callPos)
		}
		if cv, ok := c.side["choicevals"].(map[string]int); ok {
			if v.Model == nil {
				v.Model = map[string]interface{}{}
			}
			for k, x := range cv {
				v.Model[k] = x
			}
		}
		c.res.Violations = append(c.res.Violations, v)
	default:
		c.abort("inconclusive", fmt.Sprintf("assertion %s: solver answered %s", id, r))
	}
	// continue under the assumption that the assertion holds
	if !cond.Const {
		c.assertTerm(cond)
		if r != "unsat" {
			if rr := c.checkSat(); rr == "unsat" {
				c.abort("infeasible", "assertion always fails on this path (reported)")
			}
		}
	} else if cond.U == 0 {
		c.abort("infeasible", "assertion always fails on this path (reported)")
	}
}

// charsOfTerm: the characters of a string term as one-character string terms. Constants give
// concrete characters; (str.++ ...) is flattened; (str.replace_all x a b) with a constant
// one-character a and constant b maps every character of x (forking on "is it a" for symbolic
// characters); any other symbolic term t is forked over its length 0..maxLen and gives
// (str.substr t i 1).
func charsOfTerm(c *PathCtx, t *Term, maxLen int64) []Value {
	if t.Const {
		out := make([]Value, 0, len(t.S))
		for i := 0; i < len(t.S); i++ {
			out = append(out, mkStr(t.S[i:i+1]))
		}
		return out
	}
	if t.Op == "str.++" {
		var out []Value
		for _, a := range t.Args {
			out = append(out, charsOfTerm(c, a, maxLen)...)
		}
		return out
	}
	if t.Op == "str.replace_all" && t.Args[1].Const && len(t.Args[1].S) == 1 && t.Args[2].Const {
		var out []Value
		for _, ch := range charsOfTerm(c, t.Args[0], maxLen) {
			ct := ch.(*Term)
			if c.branch(tEq(ct, t.Args[1]), "vChars.replace") {
				for i := 0; i < len(t.Args[2].S); i++ {
					out = append(out, mkStr(t.Args[2].S[i:i+1]))
				}
			} else {
				out = append(out, ct)
			}
		}
		return out
	}
	n := int64(-1)
	for v := int64(0); v <= maxLen; v++ {
		if c.branch(tEq(tStrLenInt(t), mkIntC(v)), "vChars.len") {
			n = v
			break
		}
	}
	if n < 0 {
		c.abort("inconclusive", fmt.Sprintf("vChars: component longer than %d characters (%s)", maxLen, t))
	}
	out := make([]Value, 0, n)
	for i := int64(0); i < n; i++ {
		out = append(out, tSubstr(t, mkIntC(i), mkIntC(1)))
	}
	return out
}
