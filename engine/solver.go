package main

// Persistent SMT solver processes (z3 -in / cvc5 --incremental). One process
// per worker; the path condition is mirrored with push/pop.

import (
	"bufio"
	"fmt"
	"io"
	"os"
	"os/exec"
	"strings"
	"sync/atomic"
	"time"
)

type Solver struct {
	kind    string // "z3" | "z3-new" | "cvc5"
	cmd     *exec.Cmd
	in      io.WriteCloser
	out     *bufio.Reader
	logf    *os.File
	timeout time.Duration
	queries int64
	nanos   int64
	dead    bool
	// mirror: a second solver of another kind that receives the same declarations,
	// definitions, assertions and push/pop commands; it is asked only to re-decide the
	// deciding (assertion) queries the primary answered with unsat (cross-solver check)
	mirror *Solver
}

var crossAsked, crossAgree, crossUnknown, crossDisagree int64
var crossNanos int64

var solverQueries, solverNanos int64

func solverCmd(kind string, timeoutMs int) *exec.Cmd {
	switch kind {
	case "cvc5":
		return exec.Command("cvc5", "--incremental", "--strings-exp", "--produce-models", "--lang=smt2",
			fmt.Sprintf("--tlimit-per=%d", timeoutMs))
	case "z3-new":
		return exec.Command("z3-new", "-in", fmt.Sprintf("-t:%d", timeoutMs))
	default:
		return exec.Command("z3", "-in", fmt.Sprintf("-t:%d", timeoutMs))
	}
}

func NewSolver(kind string, timeout time.Duration, logPath string) (*Solver, error) {
	s := &Solver{kind: kind, timeout: timeout}
	s.cmd = solverCmd(kind, int(timeout/time.Millisecond))
	var err error
	s.in, err = s.cmd.StdinPipe()
	if err != nil {
		return nil, err
	}
	op, err := s.cmd.StdoutPipe()
	if err != nil {
		return nil, err
	}
	s.cmd.Stderr = s.cmd.Stdout
	s.out = bufio.NewReaderSize(op, 1<<16)
	if err := s.cmd.Start(); err != nil {
		return nil, err
	}
	if logPath != "" {
		s.logf, _ = os.Create(logPath)
	}
	if kind == "cvc5" {
		s.send("(set-logic ALL)")
	}
	s.send("(set-option :produce-models true)")
	return s, nil
}

func (s *Solver) send(line string) {
	if s.mirror != nil && !s.mirror.dead {
		s.mirror.sendRaw(line)
	}
	s.sendRaw(line)
}

func (s *Solver) sendRaw(line string) {
	if s.logf != nil {
		fmt.Fprintln(s.logf, line)
	}
	if _, err := io.WriteString(s.in, line+"\n"); err != nil {
		s.dead = true
	}
}

func (s *Solver) Close() {
	if s.mirror != nil {
		s.mirror.Close()
	}
	if s.cmd != nil && s.cmd.Process != nil {
		s.in.Close()
		s.cmd.Process.Kill()
		s.cmd.Wait()
	}
	if s.logf != nil {
		s.logf.Close()
	}
}

// readSexp reads one balanced s-expression or atom line from the solver.
func (s *Solver) readSexp() (string, error) {
	var b strings.Builder
	depth := 0
	inStr := false
	started := false
	for {
		c, err := s.out.ReadByte()
		if err != nil {
			s.dead = true
			return b.String(), err
		}
		if !started {
			if c == ' ' || c == '\n' || c == '\r' || c == '\t' {
				continue
			}
			started = true
		}
		b.WriteByte(c)
		if inStr {
			if c == '"' {
				inStr = false
			}
			continue
		}
		switch c {
		case '"':
			inStr = true
		case '(':
			depth++
		case ')':
			depth--
			if depth == 0 {
				return b.String(), nil
			}
		case '\n':
			if depth == 0 {
				return strings.TrimSpace(b.String()), nil
			}
		}
	}
}

// Check runs (check-sat) and returns "sat", "unsat" or "unknown:<why>".
func (s *Solver) Check() string {
	if s.dead {
		return "unknown:solver-dead"
	}
	t0 := time.Now()
	s.sendRaw("(check-sat)")
	r, err := s.readSexp()
	d := time.Since(t0)
	atomic.AddInt64(&solverQueries, 1)
	atomic.AddInt64(&solverNanos, int64(d))
	s.queries++
	s.nanos += int64(d)
	if s.logf != nil {
		fmt.Fprintf(s.logf, "; -> %s (%.3fs)\n", r, d.Seconds())
	}
	if err != nil {
		return "unknown:solver-io:" + err.Error()
	}
	switch r {
	case "sat", "unsat":
		return r
	}
	if strings.HasPrefix(r, "(error") {
		// an earlier command was rejected: drain so that the stream stays in sync
		more := s.Sync()
		return "unknown:" + r + " " + more
	}
	return "unknown:" + r
}

// GetValues returns raw value strings for the given variable names.
func (s *Solver) GetValues(names []string) (map[string]string, error) {
	res := map[string]string{}
	// chunk to keep lines manageable
	for i := 0; i < len(names); i += 50 {
		j := i + 50
		if j > len(names) {
			j = len(names)
		}
		s.sendRaw("(get-value (" + strings.Join(names[i:j], " ") + "))")
		r, err := s.readSexp()
		if err != nil {
			return res, err
		}
		if strings.HasPrefix(r, "(error") {
			return res, fmt.Errorf("%s", r)
		}
		pairs := parseSexp(r)
		for _, p := range pairs.kids {
			if len(p.kids) == 2 {
				res[strings.Trim(p.kids[0].text(), "|")] = p.kids[1].text()
			}
		}
	}
	return res, nil
}

// Sync makes sure that no (error ...) output is pending: sends an echo and reads
// until it returns. Any error line seen is returned.
func (s *Solver) Sync() string {
	if s.dead {
		return "solver-dead"
	}
	s.sendRaw(`(echo "sync!")`)
	var errs []string
	for {
		r, err := s.readSexp()
		if err != nil {
			return "io:" + err.Error()
		}
		if strings.Contains(r, "sync!") {
			break
		}
		if r != "" && r != "success" {
			errs = append(errs, r)
		}
	}
	return strings.Join(errs, "; ")
}

// ---- tiny s-expression parser (for get-value answers) ----

type sexp struct {
	atom string
	kids []*sexp
	list bool
}

func (e *sexp) text() string {
	if !e.list {
		return e.atom
	}
	parts := make([]string, len(e.kids))
	for i, k := range e.kids {
		parts[i] = k.text()
	}
	return "(" + strings.Join(parts, " ") + ")"
}

func parseSexp(s string) *sexp {
	pos := 0
	var parse func() *sexp
	skip := func() {
		for pos < len(s) && (s[pos] == ' ' || s[pos] == '\n' || s[pos] == '\t' || s[pos] == '\r') {
			pos++
		}
	}
	parse = func() *sexp {
		skip()
		if pos >= len(s) {
			return &sexp{}
		}
		if s[pos] == '(' {
			pos++
			e := &sexp{list: true}
			for {
				skip()
				if pos >= len(s) {
					return e
				}
				if s[pos] == ')' {
					pos++
					return e
				}
				e.kids = append(e.kids, parse())
			}
		}
		if s[pos] == '"' {
			st := pos
			pos++
			for pos < len(s) {
				if s[pos] == '"' {
					if pos+1 < len(s) && s[pos+1] == '"' {
						pos += 2
						continue
					}
					pos++
					break
				}
				pos++
			}
			return &sexp{atom: s[st:pos]}
		}
		st := pos
		for pos < len(s) && !strings.ContainsRune(" \n\t\r()", rune(s[pos])) {
			pos++
		}
		return &sexp{atom: s[st:pos]}
	}
	return parse()
}

// decodeValue turns a solver value into a Go value: bool, uint64 or string.
func decodeValue(raw string, sort Sort) (interface{}, bool) {
	raw = strings.TrimSpace(raw)
	switch sort.K {
	case KBool:
		return raw == "true", raw == "true" || raw == "false"
	case KBV:
		if strings.HasPrefix(raw, "#x") {
			var u uint64
			_, err := fmt.Sscanf(raw[2:], "%x", &u)
			return u, err == nil
		}
		if strings.HasPrefix(raw, "#b") {
			var u uint64
			for _, c := range raw[2:] {
				u = u<<1 | uint64(c-'0')
			}
			return u, true
		}
		if strings.HasPrefix(raw, "(_ bv") {
			var u uint64
			var w int
			_, err := fmt.Sscanf(raw, "(_ bv%d %d)", &u, &w)
			return u, err == nil
		}
		return nil, false
	case KStr:
		if len(raw) >= 2 && raw[0] == '"' {
			body := raw[1 : len(raw)-1]
			body = strings.ReplaceAll(body, `""`, `"`)
			// decode \u{..} and \uXXXX escapes
			var b strings.Builder
			for i := 0; i < len(body); i++ {
				if body[i] == '\\' && i+2 < len(body) && body[i+1] == 'u' {
					if body[i+2] == '{' {
						j := strings.IndexByte(body[i:], '}')
						if j > 0 {
							var u uint32
							fmt.Sscanf(body[i+3:i+j], "%x", &u)
							if u < 256 {
								b.WriteByte(byte(u))
							} else {
								b.WriteRune(rune(u))
							}
							i += j
							continue
						}
					} else if i+5 < len(body) {
						var u uint32
						if _, err := fmt.Sscanf(body[i+2:i+6], "%x", &u); err == nil {
							if u < 256 {
								b.WriteByte(byte(u))
							} else {
								b.WriteRune(rune(u))
							}
							i += 5
							continue
						}
					}
				}
				b.WriteByte(body[i])
			}
			return b.String(), true
		}
		return nil, false
	case KInt:
		var i int64
		if strings.HasPrefix(raw, "(-") {
			fmt.Sscanf(raw, "(- %d)", &i)
			return uint64(-i), true
		}
		_, err := fmt.Sscanf(raw, "%d", &i)
		return uint64(i), err == nil
	}
	return nil, false
}

// CrossCheck re-asks the mirror solver the query the primary just answered with unsat
// (same assertion stack). Result: "agree", "disagree" or "unknown:<why>".
func (s *Solver) CrossCheck() string {
	m := s.mirror
	if m == nil {
		return ""
	}
	atomic.AddInt64(&crossAsked, 1)
	t0 := time.Now()
	r := m.Check()
	atomic.AddInt64(&crossNanos, int64(time.Since(t0)))
	switch {
	case r == "unsat":
		atomic.AddInt64(&crossAgree, 1)
		return "agree"
	case r == "sat":
		atomic.AddInt64(&crossDisagree, 1)
		return "disagree"
	}
	atomic.AddInt64(&crossUnknown, 1)
	return r
}
