package main

// Engine: loads the real code of /repo (current working tree) plus the harness
// overlay, builds SSA, and explores all paths of each harness entry.

import (
	"encoding/json"
	"fmt"
	"go/token"
	"go/types"
	"os"
	"path/filepath"
	"sort"
	"strings"
	"sync"
	"time"

	"golang.org/x/tools/go/packages"
	"golang.org/x/tools/go/ssa"
	"golang.org/x/tools/go/ssa/ssautil"
)

type EntryCfg struct {
	Func             string         `json:"func"`
	Tiers            []string       `json:"tiers"` // which tiers run this entry (default both)
	MapOrder         bool           `json:"map_order"`
	Exploring        bool           `json:"exploring"`
	CS               int            `json:"cs"`
	CrashIsViolation bool           `json:"crash_is_violation"`
	DeadlockIsViolation bool        `json:"deadlock_is_violation"`
	DeadlockIsInfeasible bool       `json:"deadlock_is_infeasible"` // the harness forces schedules with gates: a forced order the code makes impossible blocks forever and is an infeasible schedule, not a finding
	Params           map[string]int `json:"params"`
	ThoroughParams   map[string]int `json:"thorough_params"`
	Note             string         `json:"note"`
	MaxPaths         int            `json:"max_paths"`
	Solver           string         `json:"solver"` // overrides the check's solver for this entry
	IntFormatDigits  int            `json:"int_format_digits"` // per-entry override of the check-level setting
}

type CheckCfg struct {
	Parts     []string          `json:"parts"` // a check made of several configs (different packages): each part is run as its own process, verdicts and evidence are merged
	Property  string            `json:"property"`
	Module    string            `json:"module"`  // "core" | "server"
	Package   string            `json:"package"` // e.g. "./util"
	Harness   []string          `json:"harness"` // files under /verif/harness, copied into the package dir
	ExtraOverlays map[string]string `json:"extra_overlays"` // module-relative virtual path -> file under /verif: helper files for OTHER packages (read-only accessors for unexported state)
	Solver    string            `json:"solver"`
	Entries   []*EntryCfg       `json:"entries"`
	Follow    []string          `json:"follow"`
	Sinks     []string          `json:"sinks"`
	InitPkgs  []string          `json:"init_pkgs"`
	Redirects map[string]string `json:"redirects"`
	CallHooks map[string]HookCfg `json:"call_hooks"` // harness functions run before / after a real function (same parameters, receiver first, no results)
	SymbolicOnlyRedirects []string `json:"symbolic_only_redirects"` // redirects NOT applied in native replay (the harness handles the real function natively)
	FollowFuncs []string        `json:"follow_funcs"` // function-key prefixes that are interpreted although their package is a sink (e.g. the task gauges behind the prometheus collectors)
	FrozenClock bool            `json:"frozen_clock"` // time.Now is constant: timers never fire (natively the scenario finishes long before any timer interval)
	RealContext bool            `json:"real_context"` // interpret context.WithCancel from the standard library source (cancellation observable) instead of the no-op model
	ZeroStubs []string          `json:"zero_stubs"` // functions replaced by "return zero values" (listed in the evidence)
	Assumptions []string        `json:"assumptions"`
	Bounds    map[string]string `json:"bounds"`
	TrustedBase []string        `json:"trusted_base"`

	MaxSteps        int64 `json:"max_steps"`
	MaxSymDecisions int   `json:"max_sym_decisions"`
	MaxPaths        int   `json:"max_paths"`
	QueryTimeoutMs  int   `json:"query_timeout_ms"`
	Workers         int   `json:"workers"`
	StrAlphabet     string `json:"str_alphabet"`
	CrossSolver     string `json:"cross_solver"` // second solver re-deciding every assertion query answered unsat ("" = default of the tier, "none" = off)
	IntFormatDigits int    `json:"int_format_digits"` // >0: integers are formatted exactly (decimal digits) under the path assumption 0 <= x < 10^digits, instead of by an uninterpreted injective function
}

type HookCfg struct {
	Before string `json:"before"`
	After  string `json:"after"`
}

type hookPair struct{ before, after *ssa.Function }

func (e *Engine) hookFor(fn *ssa.Function) *hookPair {
	if v, ok := e.hookCache.Load(fn); ok {
		hp, _ := v.(*hookPair)
		return hp
	}
	var hp *hookPair
	if h, ok := e.hooks[e.fnKey(fn)]; ok {
		hp = h
	}
	e.hookCache.Store(fn, hp)
	return hp
}

type fnClass int

const (
	clsFollow fnClass = iota
	clsIntrinsic
	clsSink
	clsRedirect
	clsUnknown
)

type intrinsicFn func(c *PathCtx, fr *frame, args []Value) Value

type Engine struct {
	cfg        *CheckCfg
	tier       string
	seed       int64
	prog       *ssa.Program
	pkgs       []*packages.Package
	target     *ssa.Package
	intrinsics map[string]intrinsicFn
	redirects  map[string]*ssa.Function
	hooks      map[string]*hookPair
	hookCache  sync.Map
	initPkgs   map[string]bool
	classCache sync.Map // *ssa.Function -> fnClass
	buildMu    sync.Mutex
	built      map[*ssa.Package]bool
	funcsMu    sync.Mutex
	funcsSeen  map[string]int
	known      []KnownFinding
	errStrT    types.Type
	unknownCallees map[string]int
	verifRoot  string
	repoRoot   string
	overlay    map[string][]byte
	overlayFiles map[string]string // virtual -> real (for go test -overlay)
	loadSecs   float64
	nativeRedir *nativeRedirects
}

var defaultSinks = []string{
	"github.com/zilliztech/milvus-cdc/core/log",
	"go.uber.org/zap",
	"github.com/prometheus/",
	"github.com/zilliztech/milvus-cdc/server/metrics",
	"github.com/zilliztech/milvus-cdc/server/maintenance",
	"github.com/milvus-io/milvus/pkg/log",
	"log",
}

var defaultFollow = []string{
	"github.com/zilliztech/milvus-cdc/",
	"github.com/samber/lo",
	"errors",
}

func (e *Engine) followPkg(path string) bool {
	for _, p := range defaultFollow {
		if strings.HasPrefix(path, p) {
			return true
		}
	}
	for _, p := range e.cfg.Follow {
		if strings.HasPrefix(path, p) {
			return true
		}
	}
	return false
}

func (e *Engine) sinkPkg(path string) bool {
	for _, p := range e.cfg.Sinks {
		if strings.HasPrefix(path, p) {
			return true
		}
	}
	for _, p := range defaultSinks {
		if path == p || strings.HasPrefix(path, p+"/") || (strings.HasSuffix(p, "/") && strings.HasPrefix(path, p)) {
			return true
		}
	}
	return false
}

// fnKey is the canonical name used in intrinsic/redirect tables.
func (e *Engine) fnKey(fn *ssa.Function) string {
	if o := fn.Origin(); o != nil {
		return o.String()
	}
	return fn.String()
}

func (e *Engine) classify(fn *ssa.Function) fnClass {
	if v, ok := e.classCache.Load(fn); ok {
		return v.(fnClass)
	}
	cls := e.classify1(fn)
	e.classCache.Store(fn, cls)
	return cls
}

func (e *Engine) classify1(fn *ssa.Function) fnClass {
	key := e.fnKey(fn)
	if _, ok := e.redirects[key]; ok {
		return clsRedirect
	}
	if _, ok := e.intrinsics[key]; ok {
		return clsIntrinsic
	}
	for _, z := range e.cfg.ZeroStubs {
		if z == key {
			return clsSink
		}
	}
	// harness runtime (v* functions) are matched by bare name inside followed packages
	if fn.Pkg != nil && fn.Parent() == nil && fn.Signature.Recv() == nil {
		if in, ok := rtIntrinsics[fn.Name()]; ok && e.followPkg(fn.Pkg.Pkg.Path()) {
			e.intrinsics[key] = in
			return clsIntrinsic
		}
	}
	// String() of protobuf enums (int32-based named types outside the repo) goes
	// through protoimpl reflection; modelled as an injective rendering of the number
	if fn.Name() == "String" && fn.Signature.Recv() != nil && fn.Signature.Params().Len() == 0 && (!strings.HasPrefix(fnPkgPath(fn), "github.com/zilliztech/milvus-cdc/") || fnPkgPath(fn) == "github.com/zilliztech/milvus-cdc/core/pb") {
		if b, ok := fn.Signature.Recv().Type().Underlying().(*types.Basic); ok && b.Kind() == types.Int32 {
			e.intrinsics[key] = func(c *PathCtx, fr *frame, args []Value) Value {
				return tConcat(mkStr("enum#"), fmtInt(c, args[0].(*Term), true))
			}
			return clsIntrinsic
		}
	}
	if fn.Parent() != nil {
		// closures follow their parent
		return e.classify(fn.Parent())
	}
	path := fnPkgPath(fn)
	for _, p := range e.cfg.FollowFuncs {
		if strings.HasPrefix(key, p) {
			return clsFollow
		}
	}
	// sinks win over follow (core/log lives under the repo prefix)
	if e.sinkPkg(path) {
		return clsSink
	}
	if e.followPkg(path) {
		return clsFollow
	}
	if fn.Pkg == nil && fn.Origin() == nil && fn.Synthetic != "" {
		// wrappers / bound methods / thunks: follow, the wrapped call is classified itself
		return clsFollow
	}
	return clsUnknown
}

func (e *Engine) buildPkg(p *ssa.Package) {
	e.buildMu.Lock()
	defer e.buildMu.Unlock()
	if e.built[p] {
		return
	}
	e.built[p] = true
	p.Build()
}

func (e *Engine) buildFn(fn *ssa.Function) {
	p := fn.Pkg
	if p == nil && fn.Origin() != nil {
		p = fn.Origin().Pkg
	}
	if p == nil && fn.Parent() != nil {
		e.buildFn(fn.Parent())
		return
	}
	if p != nil {
		e.buildPkg(p)
	}
}

func (e *Engine) noteFunc(c *PathCtx, fn *ssa.Function) {
	if c.res.Funcs == nil {
		c.res.Funcs = map[*ssa.Function]bool{}
	}
	c.res.Funcs[fn] = true
}

// ---------- loading ----------

func (e *Engine) load() error {
	t0 := time.Now()
	modDir := filepath.Join(e.repoRoot, e.cfg.Module)
	pkgDir := filepath.Join(modDir, strings.TrimPrefix(e.cfg.Package, "./"))
	pkgName, err := goPackageName(pkgDir)
	if err != nil {
		return err
	}
	e.overlay = map[string][]byte{}
	e.overlayFiles = map[string]string{}
	work := filepath.Join(e.verifRoot, ".work", fmt.Sprintf("%s-%d", e.cfg.Property, os.Getpid()))
	os.MkdirAll(work, 0o755)
	// runtime shim
	rt := strings.ReplaceAll(rtSource, "package PKG", "package "+pkgName)
	rtReal := filepath.Join(work, "zz_verif_rt.go")
	os.WriteFile(rtReal, []byte(rt), 0o644)
	e.overlay[filepath.Join(pkgDir, "zz_verif_rt.go")] = []byte(rt)
	e.overlayFiles[filepath.Join(pkgDir, "zz_verif_rt.go")] = rtReal
	for _, h := range e.cfg.Harness {
		src, err := os.ReadFile(filepath.Join(e.verifRoot, h))
		if err != nil {
			return err
		}
		virt := filepath.Join(pkgDir, "zz_verif_"+filepath.Base(h))
		e.overlay[virt] = src
		e.overlayFiles[virt] = filepath.Join(e.verifRoot, h)
	}
	for virtRel, h := range e.cfg.ExtraOverlays {
		src, err := os.ReadFile(filepath.Join(e.verifRoot, h))
		if err != nil {
			return err
		}
		virt := filepath.Join(modDir, virtRel)
		e.overlay[virt] = src
		e.overlayFiles[virt] = filepath.Join(e.verifRoot, h)
	}
	cfg := &packages.Config{
		Mode:       packages.LoadAllSyntax,
		Dir:        modDir,
		Overlay:    e.overlay,
		BuildFlags: []string{"-tags=verif"},
		Env:        append(os.Environ(), "GOFLAGS=-mod=mod", "GOPROXY=off", "GOSUMDB=off", "GOTOOLCHAIN=local"),
	}
	pkgs, err := packages.Load(cfg, e.cfg.Package)
	if err != nil {
		return err
	}
	nerr := 0
	packages.Visit(pkgs, nil, func(p *packages.Package) {
		for _, er := range p.Errors {
			if nerr < 20 {
				fmt.Fprintf(os.Stderr, "load error: %s: %v\n", p.PkgPath, er)
			}
			nerr++
		}
	})
	if nerr > 0 {
		return fmt.Errorf("%d load errors", nerr)
	}
	prog, spkgs := ssautil.AllPackages(pkgs, ssa.InstantiateGenerics)
	e.prog = prog
	e.pkgs = pkgs
	e.target = spkgs[0]
	e.built = map[*ssa.Package]bool{}
	// build followed packages up-front (single threaded)
	for _, p := range prog.AllPackages() {
		if e.followPkg(p.Pkg.Path()) {
			e.buildPkg(p)
		}
	}
	e.initPkgs = map[string]bool{}
	for _, p := range e.cfg.InitPkgs {
		e.initPkgs[p] = true
	}
	// the package under test is always initialised (its package-level vars hold
	// their real initial values); its followed imports are initialised by its init
	e.initPkgs[e.target.Pkg.Path()] = true
	e.redirects = map[string]*ssa.Function{}
	for from, to := range e.cfg.Redirects {
		f := e.target.Func(to)
		if f == nil {
			return fmt.Errorf("redirect target %s not found in harness package", to)
		}
		e.redirects[from] = f
	}
	e.hooks = map[string]*hookPair{}
	for k, h := range e.cfg.CallHooks {
		hp := &hookPair{}
		if h.Before != "" {
			if hp.before = e.target.Func(h.Before); hp.before == nil {
				return fmt.Errorf("hook %s not found in harness package", h.Before)
			}
		}
		if h.After != "" {
			if hp.after = e.target.Func(h.After); hp.after == nil {
				return fmt.Errorf("hook %s not found in harness package", h.After)
			}
		}
		e.hooks[k] = hp
	}
	e.nativeRedir = e.buildNativeRedirects(work)
	for _, p := range e.nativeRedir.problems {
		fmt.Fprintln(os.Stderr, "native redirect:", p)
	}
	e.loadSecs = time.Since(t0).Seconds()
	return nil
}

func goPackageName(dir string) (string, error) {
	ents, err := os.ReadDir(dir)
	if err != nil {
		return "", err
	}
	for _, en := range ents {
		n := en.Name()
		if strings.HasSuffix(n, ".go") && !strings.HasSuffix(n, "_test.go") {
			b, err := os.ReadFile(filepath.Join(dir, n))
			if err != nil {
				continue
			}
			for _, line := range strings.Split(string(b), "\n") {
				line = strings.TrimSpace(line)
				if strings.HasPrefix(line, "package ") {
					return strings.Fields(line)[1], nil
				}
			}
		}
	}
	return "", fmt.Errorf("no go package in %s", dir)
}

// ---------- exploration ----------

type EntryResult struct {
	Entry       *EntryCfg
	Paths       int
	OkPaths     int
	Infeasible  int
	Inconclusive []string
	CrashPaths  int
	CrashMsgs   map[string]int
	Deadlocks   int
	Forks       int
	Steps       int64
	Obligations int
	Discharged  int
	Violations  []*Violation
	KnownSeen   map[string]int
	Reached     map[string]int
	Samples     []map[string]interface{}
	Unknowns    int
	Funcs       map[*ssa.Function]bool
	Exhaustive  bool
	Secs        float64
	MaxDecisions int
}

func (e *Engine) param(ent *EntryCfg, name string, def int) int {
	if e.tier == "thorough" {
		if v, ok := ent.ThoroughParams[name]; ok {
			return v
		}
	}
	if v, ok := ent.Params[name]; ok {
		return v
	}
	return def
}

func (e *Engine) explore(ent *EntryCfg, deadline time.Time) *EntryResult {
	t0 := time.Now()
	fn := e.target.Func(ent.Func)
	res := &EntryResult{Entry: ent, KnownSeen: map[string]int{}, Reached: map[string]int{}, Funcs: map[*ssa.Function]bool{}, CrashMsgs: map[string]int{}}
	if fn == nil {
		res.Inconclusive = append(res.Inconclusive, "entry function not found: "+ent.Func)
		return res
	}
	workers := e.cfg.Workers
	if workers <= 0 {
		workers = 14
	}
	maxPaths := e.cfg.MaxPaths
	if ent.MaxPaths > 0 {
		maxPaths = ent.MaxPaths
	}
	var mu sync.Mutex
	cond := sync.NewCond(&mu)
	stack := [][]int{{}}
	active := 0
	stop := false
	started := 0
	var wg sync.WaitGroup
	for w := 0; w < workers; w++ {
		wg.Add(1)
		go func(w int) {
			defer wg.Done()
			logPath := ""
			if os.Getenv("SYMGO_SMTLOG") != "" {
				logPath = fmt.Sprintf("%s.%s.%d.smt2", os.Getenv("SYMGO_SMTLOG"), ent.Func, w)
			}
			var solver *Solver
			defer func() {
				if solver != nil {
					solver.Close()
				}
			}()
			for {
				mu.Lock()
				for len(stack) == 0 && active > 0 && !stop {
					cond.Wait()
				}
				if stop || (len(stack) == 0 && active == 0) {
					mu.Unlock()
					cond.Broadcast()
					return
				}
				prefix := stack[len(stack)-1]
				stack = stack[:len(stack)-1]
				active++
				started++
				if started > maxPaths || time.Now().After(deadline) {
					stop = true
					res.Inconclusive = append(res.Inconclusive, fmt.Sprintf("exploration budget exhausted (paths=%d, max=%d, deadline passed=%v)", started, maxPaths, time.Now().After(deadline)))
					active--
					mu.Unlock()
					cond.Broadcast()
					return
				}
				mu.Unlock()

				if solver == nil || solver.dead {
					if solver != nil {
						solver.Close()
					}
					var err error
					kind := e.cfg.Solver
				if ent.Solver != "" && solverOverride == "" {
					kind = ent.Solver
				}
				solver, err = NewSolver(kind, time.Duration(e.cfg.QueryTimeoutMs)*time.Millisecond, logPath)
					if cross := e.cfg.CrossSolver; err == nil && cross != "" && cross != "none" {
						if cross == kind {
							cross = map[bool]string{true: "z3-new", false: "z3"}[kind == "z3"]
						}
						solver.mirror, _ = NewSolver(cross, time.Duration(e.cfg.QueryTimeoutMs)*time.Millisecond, "")
					}
					if err != nil {
						mu.Lock()
						res.Inconclusive = append(res.Inconclusive, "cannot start solver: "+err.Error())
						stop = true
						active--
						mu.Unlock()
						cond.Broadcast()
						return
					}
				}
				pr := e.runPath(fn, ent, prefix, solver)

				mu.Lock()
				active--
				res.Paths++
				res.Forks += pr.Forks
				res.Steps += pr.Steps
				res.Obligations += pr.Obligations
				res.Discharged += pr.Discharged
				res.Unknowns += pr.Unknowns
				if len(pr.Decisions) > res.MaxDecisions {
					res.MaxDecisions = len(pr.Decisions)
				}
				for f := range pr.Funcs {
					res.Funcs[f] = true
				}
				for k, v := range pr.Reached {
					res.Reached[k] += v
				}
				for _, k := range pr.KnownSeen {
					res.KnownSeen[k]++
				}
				res.Violations = append(res.Violations, pr.Violations...)
				switch pr.Status {
				case "ok":
					res.OkPaths++
					if pr.Sample != nil && len(res.Samples) < 12 {
						res.Samples = append(res.Samples, pr.Sample)
					}
				case "infeasible":
					res.Infeasible++
				case "crash":
					res.CrashPaths++
					res.CrashMsgs[pr.Why]++
				case "deadlock":
					res.Deadlocks++
					if ent.DeadlockIsInfeasible {
						res.Infeasible++
					} else if len(res.Inconclusive) < 10 && !ent.DeadlockIsViolation {
						res.Inconclusive = append(res.Inconclusive, "deadlock: "+pr.Why)
					}
				default:
					if len(res.Inconclusive) < 10 {
						res.Inconclusive = append(res.Inconclusive, pr.Status+": "+pr.Why)
					}
				}
				stack = append(stack, pr.NewAlts...)
				mu.Unlock()
				cond.Broadcast()
			}
		}(w)
	}
	wg.Wait()
	res.Exhaustive = len(res.Inconclusive) == 0 && len(stack) == 0
	res.Secs = time.Since(t0).Seconds()
	return res
}

func (e *Engine) runPath(fn *ssa.Function, ent *EntryCfg, prefix []int, solver *Solver) *PathResult {
	c := &PathCtx{
		eng: e, solver: solver, pr: newPrinter(), entry: ent,
		prefix: prefix, varNames: map[string]int{},
		globals: map[*ssa.Global]*Value{}, inited: map[*ssa.Package]bool{},
		locks: map[*Value]*lockState{}, onces: map[*Value]bool{}, side: map[interface{}]interface{}{},
		finished: make(chan struct{}),
		res:      &PathResult{Reached: map[string]int{}},
		exploring: ent.Exploring, csBudget: ent.CS,
	}
	solver.send("(push 1)")
	main := c.spawn("main", func() {
		c.callSSA(nil, token.NoPos, fn, nil, nil)
	})
	c.cur = main
	main.resume <- struct{}{}
	<-c.finished
	c.killAll()
	// path-level sample (a satisfying assignment of the path condition)
	if c.res.Status == "ok" && len(prefix)%3 == 0 {
		m, ok := c.model()
		if !ok && len(c.vars) == 0 {
			m, ok = map[string]interface{}{}, true
		}
		if ok {
			if cv, ok2 := c.side["choicevals"].(map[string]int); ok2 {
				for k, x := range cv {
					m[k] = x
				}
			}
			c.res.Sample = m
		}
	}
	if c.res.Status == "crash" && ent.CrashIsViolation {
		// violation of a no-crash property: the model of the path condition is the witness
		m, _ := c.model()
		if cv, ok := c.side["choicevals"].(map[string]int); ok {
			if m == nil {
				m = map[string]interface{}{}
			}
			for k, x := range cv {
				m[k] = x
			}
		}
		v := &Violation{AssertID: "no-crash", Kind: "crash", Detail: c.res.Why, Model: m, Choices: c.choices, Decisions: c.decisions}
		c.res.Violations = append(c.res.Violations, v)
	}
	solver.send("(pop 1)")
	if errs := solver.Sync(); errs != "" {
		if c.res.Status == "ok" || c.res.Status == "infeasible" {
			c.res.Status = "inconclusive"
			c.res.Why = "solver reported: " + errs
		}
	}
	c.res.NewAlts = c.newAlts
	c.res.Decisions = c.decisions
	c.res.Steps = c.steps
	return c.res
}

// ---------- evidence ----------

type funcInfo struct {
	Name string `json:"name"`
	Pos  string `json:"pos"`
}

func (e *Engine) funcList(fs map[*ssa.Function]bool) []string {
	var out []string
	for f := range fs {
		p := posString(e.prog.Fset, f.Pos())
		path := fnPkgPath(f)
		if strings.HasPrefix(path, "github.com/zilliztech/milvus-cdc/") && !strings.Contains(p, "zz_verif_") {
			out = append(out, fmt.Sprintf("%s (%s)", f.String(), p))
		}
	}
	sort.Strings(out)
	return out
}

func writeJSON(path string, v interface{}) error {
	b, err := json.MarshalIndent(v, "", " ")
	if err != nil {
		return err
	}
	os.MkdirAll(filepath.Dir(path), 0o755)
	return os.WriteFile(path, append(b, '\n'), 0o644)
}

var _ = types.Identical
