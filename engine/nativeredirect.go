package main

// Native counterpart of the engine's redirects. Under the executor a redirect
// replaces a callee by a harness function. For native replay the same
// replacement is produced by an overlay: the file that declares the redirected
// function is copied with the declaration renamed to <name>__verifOrig and a
// wrapper with the original name appended, which calls the harness function
// (directly when it lives in the same package, through an exported hook variable
// set by the generated test file otherwise). Nothing is written into /repo or the
// module cache; the overlay only exists for the `go test` invocation.

import (
	"bytes"
	"fmt"
	"go/ast"
	goprinter "go/printer"
	"go/token"
	"os"
	"path/filepath"
	"sort"
	"strings"

	"golang.org/x/tools/go/ssa"
	"golang.org/x/tools/go/ssa/ssautil"
)

type nativeRedirects struct {
	files    map[string]string // virtual path -> real path of the rewritten copy
	initSrc  string            // statements for the generated test file's init()
	imports  map[string]string // import path -> alias needed by initSrc
	problems []string
}

func (e *Engine) buildNativeRedirects(work string) *nativeRedirects {
	nr := &nativeRedirects{files: map[string]string{}, imports: map[string]string{}}
	if len(e.cfg.Redirects) == 0 && len(e.cfg.CallHooks) == 0 {
		return nr
	}
	byKey := map[string]*ssa.Function{}
	for fn := range ssautil.AllFunctions(e.prog) {
		k := e.fnKey(fn)
		_, isHook := e.cfg.CallHooks[k]
		if _, ok := e.cfg.Redirects[k]; (ok || isHook) && fn.Syntax() != nil {
			if _, isDecl := fn.Syntax().(*ast.FuncDecl); isDecl {
				byKey[k] = fn
			}
		}
	}
	type edit struct {
		off    int
		insert string
	}
	edits := map[string][]edit{}
	tails := map[string][]string{}
	keys := make([]string, 0, len(e.cfg.Redirects))
	symOnly := map[string]bool{}
	for _, k := range e.cfg.SymbolicOnlyRedirects {
		symOnly[k] = true
	}
	for k := range e.cfg.Redirects {
		if !symOnly[k] {
			keys = append(keys, k)
		}
	}
	for k := range e.cfg.CallHooks {
		keys = append(keys, k)
	}
	sort.Strings(keys)
	harnessPkg := e.target.Pkg.Path()
	for _, k := range keys {
		target := e.cfg.Redirects[k]
		hookCfg, isHook := e.cfg.CallHooks[k]
		fn := byKey[k]
		if fn == nil {
			nr.problems = append(nr.problems, "no declaration found for redirect "+k)
			continue
		}
		decl := fn.Syntax().(*ast.FuncDecl)
		pos := e.prog.Fset.Position(decl.Name.Pos())
		file := pos.Filename
		edits[file] = append(edits[file], edit{pos.Offset + len(decl.Name.Name), "__verifOrig"})
		// wrapper declaration with fresh parameter names
		var names []string
		nf := &ast.FuncType{Params: &ast.FieldList{}, Results: decl.Type.Results, TypeParams: decl.Type.TypeParams}
		if decl.Type.TypeParams != nil {
			nr.problems = append(nr.problems, "generic function cannot be redirected natively: "+k)
			continue
		}
		n := 0
		variadic := false
		for _, f := range decl.Type.Params.List {
			cnt := len(f.Names)
			if cnt == 0 {
				cnt = 1
			}
			for i := 0; i < cnt; i++ {
				nm := fmt.Sprintf("vp%d", n)
				n++
				names = append(names, nm)
				nf.Params.List = append(nf.Params.List, &ast.Field{Names: []*ast.Ident{ast.NewIdent(nm)}, Type: f.Type})
				if _, ok := f.Type.(*ast.Ellipsis); ok {
					variadic = true
				}
			}
		}
		args := strings.Join(names, ", ")
		if variadic {
			args += "..."
		}
		w := &ast.FuncDecl{Name: ast.NewIdent(decl.Name.Name), Type: nf}
		recvArg := ""
		hookParams := &ast.FieldList{}
		if decl.Recv != nil && len(decl.Recv.List) == 1 {
			w.Recv = &ast.FieldList{List: []*ast.Field{{Names: []*ast.Ident{ast.NewIdent("vrecv")}, Type: decl.Recv.List[0].Type}}}
			recvArg = "vrecv"
			hookParams.List = append(hookParams.List, &ast.Field{Names: []*ast.Ident{ast.NewIdent("vrecv")}, Type: decl.Recv.List[0].Type})
		}
		hookParams.List = append(hookParams.List, nf.Params.List...)
		var sig bytes.Buffer
		goprinter.Fprint(&sig, token.NewFileSet(), w)
		ret := "return "
		if decl.Type.Results == nil || len(decl.Type.Results.List) == 0 {
			ret = ""
		}
		allArgs := args
		if recvArg != "" {
			if allArgs != "" {
				allArgs = recvArg + ", " + allArgs
			} else {
				allArgs = recvArg
			}
		}
		origCall := decl.Name.Name + "__verifOrig(" + args + ")"
		if recvArg != "" {
			origCall = recvArg + "." + origCall
		}
		pkgPath := fnPkgPath(fn)
		var body string
		if isHook {
			// before-hook; original; after-hook (results passed through)
			if pkgPath != harnessPkg {
				nr.problems = append(nr.problems, "call hooks are only supported for functions of the harness package: "+k)
				continue
			}
			nres := 0
			if decl.Type.Results != nil {
				for _, f := range decl.Type.Results.List {
					if len(f.Names) == 0 {
						nres++
					} else {
						nres += len(f.Names)
					}
				}
			}
			var rs []string
			for i := 0; i < nres; i++ {
				rs = append(rs, fmt.Sprintf("vr%d", i))
			}
			body = "{\n"
			if hookCfg.Before != "" {
				body += fmt.Sprintf("\t%s(%s)\n", hookCfg.Before, allArgs)
			}
			if nres > 0 {
				body += fmt.Sprintf("\t%s := %s\n", strings.Join(rs, ", "), origCall)
			} else {
				body += "\t" + origCall + "\n"
			}
			if hookCfg.After != "" {
				body += fmt.Sprintf("\t%s(%s)\n", hookCfg.After, allArgs)
			}
			if nres > 0 {
				body += "\treturn " + strings.Join(rs, ", ") + "\n"
			}
			body += "}\n"
		} else if pkgPath == harnessPkg {
			body = fmt.Sprintf("{\n\t%s%s(%s)\n}\n", ret, target, allArgs)
			_ = origCall
		} else {
			hook := "VerifHook_" + sanitizeIdent(k)
			var ht bytes.Buffer
			goprinter.Fprint(&ht, token.NewFileSet(), &ast.FuncType{Params: hookParams, Results: decl.Type.Results})
			tails[file] = append(tails[file], fmt.Sprintf("\nvar %s %s\n", hook, ht.String()))
			body = fmt.Sprintf("{\n\tif %s != nil {\n\t\t%s%s(%s)\n\t\treturn\n\t}\n\t%s%s\n}\n", hook, ret, hook, allArgs, ret, origCall)
			if ret != "" {
				body = fmt.Sprintf("{\n\tif %s != nil {\n\t\treturn %s(%s)\n\t}\n\treturn %s\n}\n", hook, hook, allArgs, origCall)
			}
			alias := "vredir" + fmt.Sprint(len(nr.imports))
			if a, ok := nr.imports[pkgPath]; ok {
				alias = a
			} else {
				nr.imports[pkgPath] = alias
			}
			nr.initSrc += fmt.Sprintf("\t%s.%s = %s\n", alias, hook, target)
		}
		tails[file] = append(tails[file], "\n"+sig.String()+" "+body)
	}
	dir := filepath.Join(work, "redirect")
	os.MkdirAll(dir, 0o755)
	i := 0
	for file, es := range edits {
		src, err := os.ReadFile(file)
		if err != nil {
			nr.problems = append(nr.problems, err.Error())
			continue
		}
		sort.Slice(es, func(a, b int) bool { return es[a].off > es[b].off })
		for _, ed := range es {
			src = append(src[:ed.off], append([]byte(ed.insert), src[ed.off:]...)...)
		}
		for _, t := range tails[file] {
			src = append(src, []byte(t)...)
		}
		real := filepath.Join(dir, fmt.Sprintf("%d_%s", i, filepath.Base(file)))
		i++
		os.WriteFile(real, src, 0o644)
		nr.files[file] = real
	}
	return nr
}

func sanitizeIdent(s string) string {
	var b strings.Builder
	for _, r := range s {
		if (r >= 'a' && r <= 'z') || (r >= 'A' && r <= 'Z') || (r >= '0' && r <= '9') {
			b.WriteRune(r)
		} else {
			b.WriteByte('_')
		}
	}
	return b.String()
}
