package main

// One PathCtx = one execution of a harness entry along one decision prefix.
// Forking is by re-execution: every nondeterministic decision (symbolic branch,
// vChoice, map order, schedule, select) is logged; alternatives are queued as
// new prefixes and replayed from the start by some worker.

import (
	"fmt"
	"go/token"
	"runtime/debug"
	"sort"
	"strings"
	"sync"
	"time"

	"golang.org/x/tools/go/ssa"
)

// ---- control-flow signals (Go panics inside the engine) ----

type targetPanic struct {
	v   Value  // value passed to panic() by target code (Iface) or nil
	msg string // runtime error text
	pos string
}

func (p targetPanic) String() string {
	if p.msg != "" {
		return "runtime error: " + p.msg
	}
	return "panic: " + valString(p.v)
}

type pathAbort struct {
	kind string // "infeasible" | "inconclusive" | "done" | "violation-stop"
	why  string
}

type killSignal struct{}

type engineError struct{ msg string }

func engineErr(f string, a ...interface{}) engineError {
	return engineError{fmt.Sprintf(f, a...)}
}
func inconclusive(f string, a ...interface{}) pathAbort {
	return pathAbort{"inconclusive", fmt.Sprintf(f, a...)}
}

// ---- nondeterministic variables ----

type NVar struct {
	Name string
	T    *Term
}

type Violation struct {
	AssertID string
	Pos      string
	Model    map[string]interface{}
	Choices  []ChoiceRec
	Decisions []int
	Kind     string // "assert" | "crash" | "deadlock"
	Detail   string
	Known    string // known-finding id when covered
}

type ChoiceRec struct {
	Label string `json:"label"`
	N     int    `json:"n"`
	Pick  int    `json:"pick"`
}

type Goroutine struct {
	id      int
	resume  chan struct{}
	done    bool
	blocked func() bool // nil => runnable; else ready predicate
	sleeping bool
	name    string
	frames  int
	spinCh  *Chan // busy-loop detection: the closed channel this goroutine keeps receiving from
	spin    int
}

type lockState struct {
	writer  bool
	readers int
	owner   *Goroutine
}

type PathResult struct {
	Status     string // "ok" | "infeasible" | "inconclusive" | "crash"
	Why        string
	NewAlts    [][]int
	Decisions  []int
	Violations []*Violation
	KnownSeen  []string
	Obligations int
	Discharged  int
	Reached    map[string]int
	Steps      int64
	Forks      int
	Sample     map[string]interface{}
	Observes   []string
	Funcs      map[*ssa.Function]bool
	Unknowns   int
	CrashMsg   string
}

type PathCtx struct {
	eng    *Engine
	solver *Solver
	pr     *printer
	entry  *EntryCfg

	prefix    []int
	pos       int
	decisions []int
	newAlts   [][]int
	choices   []ChoiceRec

	vars     []*NVar
	varNames map[string]int
	nPC      int
	pcs      []*Term

	globals map[*ssa.Global]*Value
	inited  map[*ssa.Package]bool
	lenient int // >0 while running package initialisers

	gors    []*Goroutine
	cur     *Goroutine
	locks   map[*Value]*lockState
	onces   map[*Value]bool
	side    map[interface{}]interface{}
	mu      sync.Mutex
	finished chan struct{}
	endOnce sync.Once
	wg      sync.WaitGroup
	killed  bool

	steps     int64
	symDecs   int
	res       *PathResult
	clockN    int
	lastNow   *Term
	chanN     int
	pendingKF []kfPred
	quiesceEpoch int // number of vQuiesce calls so far (retry back-off model, RY)
	deciding  bool // the next checkSat decides an assertion (cross-checked when a mirror solver runs)
	exploring bool
	csBudget  int
	deadline  time.Time
}

type kfPred struct {
	id   string
	pred *Term
}

func (c *PathCtx) abort(kind, why string) {
	panic(pathAbort{kind, why})
}

// ---------- solver plumbing ----------

func (c *PathCtx) flushDefs() {
	for _, d := range c.pr.defs {
		c.solver.send(d)
	}
	c.pr.defs = c.pr.defs[:0]
}

func (c *PathCtx) assertTerm(t *Term) {
	if t.Const {
		if t.U == 0 {
			c.abort("infeasible", "assumed false")
		}
		return
	}
	s := c.pr.ref(t)
	c.flushDefs()
	c.solver.send("(assert " + s + ")")
	c.nPC++
	c.pcs = append(c.pcs, t)
}

// checkSat asks whether pathcond ∧ extra is satisfiable.
func (c *PathCtx) checkSat(extra ...*Term) string {
	strs := make([]string, 0, len(extra))
	for _, e := range extra {
		if e.Const {
			if e.U == 0 {
				return "unsat"
			}
			continue
		}
		strs = append(strs, c.pr.ref(e))
	}
	c.flushDefs()
	c.solver.send("(push 1)")
	for _, s := range strs {
		c.solver.send("(assert " + s + ")")
	}
	r := c.solver.Check()
	if r == "unsat" && c.deciding && c.solver.mirror != nil {
		if x := c.solver.CrossCheck(); x == "disagree" {
			r = "unknown:cross-solver disagreement (" + c.solver.kind + " unsat, " + c.solver.mirror.kind + " sat)"
		}
	}
	c.solver.send("(pop 1)")
	if strings.HasPrefix(r, "unknown") {
		c.res.Unknowns++
	}
	return r
}

func (c *PathCtx) newVar(s Sort, name string) *Term {
	if k, dup := c.varNames[name]; dup {
		c.varNames[name] = k + 1
		name = fmt.Sprintf("%s#%d", name, k+1)
	} else {
		c.varNames[name] = 0
	}
	t := mkVar(s, "|"+name+"|")
	c.solver.send(fmt.Sprintf("(declare-const |%s| %s)", name, s.SMT()))
	c.vars = append(c.vars, &NVar{name, t})
	return t
}

// model extracts values for all nondet variables under pathcond ∧ extra.
func (c *PathCtx) model(extra ...*Term) (map[string]interface{}, bool) {
	strs := []string{}
	for _, e := range extra {
		if !e.Const {
			strs = append(strs, c.pr.ref(e))
		}
	}
	c.flushDefs()
	c.solver.send("(push 1)")
	defer c.solver.send("(pop 1)")
	for _, s := range strs {
		c.solver.send("(assert " + s + ")")
	}
	if r := c.solver.Check(); r != "sat" {
		return nil, false
	}
	names := make([]string, len(c.vars))
	for i, v := range c.vars {
		names[i] = v.T.Name
	}
	raw, err := c.solver.GetValues(names)
	if err != nil {
		return nil, false
	}
	m := map[string]interface{}{}
	for _, v := range c.vars {
		if rv, ok := raw[strings.Trim(v.T.Name, "|")]; ok {
			if dv, ok := decodeValue(rv, v.T.Sort); ok {
				switch v.T.Sort.K {
				case KBV:
					m[v.Name] = fmt.Sprintf("%d", dv.(uint64))
				default:
					m[v.Name] = dv
				}
			}
		}
	}
	return m, true
}

// ---------- decisions ----------

func (c *PathCtx) recordDecision(d int) {
	c.decisions = append(c.decisions, d)
	c.pos++
}

// choose picks one of n alternatives (all considered feasible).
func (c *PathCtx) choose(n int, label string) int {
	if n <= 1 {
		return 0
	}
	var d int
	if c.pos < len(c.prefix) {
		d = c.prefix[c.pos]
		if d >= n {
			panic(engineErr("replay divergence at decision %d (%s): %d >= %d", c.pos, label, d, n))
		}
	} else {
		for i := 1; i < n; i++ {
			alt := append(append([]int{}, c.decisions...), i)
			c.newAlts = append(c.newAlts, alt)
		}
		d = 0
		c.res.Forks += n - 1
	}
	c.recordDecision(d)
	c.choices = append(c.choices, ChoiceRec{label, n, d})
	return d
}

// branch decides a symbolic condition, forking when both sides are feasible.
func (c *PathCtx) branch(cond *Term, label string) bool {
	if cond.Const {
		return cond.U != 0
	}
	c.symDecs++
	if c.symDecs > c.eng.cfg.MaxSymDecisions {
		c.abort("inconclusive", fmt.Sprintf("unwinding bound: more than %d symbolic decisions on one path", c.eng.cfg.MaxSymDecisions))
	}
	if c.pos < len(c.prefix) {
		d := c.prefix[c.pos]
		c.recordDecision(d)
		if d == 0 {
			c.assertTerm(cond)
			return true
		}
		c.assertTerm(tNot(cond))
		return false
	}
	r1 := c.checkSat(cond)
	if r1 == "unsat" {
		c.recordDecision(1)
		// forced: no need to assert (implied), but keep the pathcond explicit for models
		return false
	}
	r2 := c.checkSat(tNot(cond))
	if r2 == "unsat" {
		c.recordDecision(0)
		return true
	}
	// both feasible (or unknown): take true, queue false
	alt := append(append([]int{}, c.decisions...), 1)
	c.newAlts = append(c.newAlts, alt)
	c.res.Forks++
	c.recordDecision(0)
	c.assertTerm(cond)
	return true
}

// concretize forks over the possible values lo..hi of a small integer term.
func (c *PathCtx) concretize(t *Term, lo, hi int64, label string) int64 {
	if t.Const {
		return t.Int64()
	}
	for v := lo; v <= hi; v++ {
		if c.branch(tEq(t, mkBV(t.Sort.W, uint64(v))), label) {
			return v
		}
	}
	c.abort("inconclusive", fmt.Sprintf("concretize %s: value outside [%d,%d] (%s)", label, lo, hi, t))
	return 0
}

// ---------- goroutines (baton passing; exactly one runs at a time) ----------

func (c *PathCtx) spawn(name string, body func()) *Goroutine {
	g := &Goroutine{id: len(c.gors), resume: make(chan struct{}, 1), name: name}
	c.gors = append(c.gors, g)
	c.wg.Add(1)
	go func() {
		defer c.wg.Done()
		<-g.resume
		if c.killed {
			g.done = true
			return
		}
		defer func() {
			g.done = true
			r := recover()
			c.goroutineEnded(g, r)
		}()
		body()
	}()
	return g
}

// goroutineEnded runs on g's real goroutine when its body returned or panicked.
func (c *PathCtx) goroutineEnded(g *Goroutine, r interface{}) {
	if _, ok := r.(killSignal); ok {
		return
	}
	if r != nil {
		switch p := r.(type) {
		case pathAbort:
			c.finish(p.kind, p.why)
			return
		case targetPanic:
			// unrecovered panic in target code = process crash
			c.res.CrashMsg = p.String() + " " + p.pos
			c.finish("crash", p.String()+" "+p.pos)
			return
		case engineError:
			c.finish("inconclusive", "engine: "+p.msg+"\n"+string(debug.Stack()))
			return
		default:
			c.finish("inconclusive", fmt.Sprintf("engine crash: %v\n%s", r, debug.Stack()))
			return
		}
	}
	if g.id == 0 {
		c.finish("ok", "")
		return
	}
	// a non-main goroutine finished normally: hand the baton on
	c.scheduleNext(g, true)
}

func (c *PathCtx) finish(status, why string) {
	c.endOnce.Do(func() {
		c.res.Status = status
		c.res.Why = why
		close(c.finished)
	})
}

func (c *PathCtx) ready(g *Goroutine) bool {
	if g.done {
		return false
	}
	if g.blocked == nil {
		return true
	}
	return g.blocked()
}

// pickNext chooses the goroutine to run next. cur may continue if ready.
func (c *PathCtx) pickNext(cur *Goroutine, curEnded bool, atSchedPoint bool) *Goroutine {
	var cands []*Goroutine
	for _, g := range c.gors {
		if g == cur && curEnded {
			continue
		}
		if c.ready(g) {
			cands = append(cands, g)
		}
	}
	if len(cands) == 0 {
		return nil
	}
	// prefer non-sleeping goroutines; sleepers only run when nothing else can
	var awake []*Goroutine
	for _, g := range cands {
		if !g.sleeping {
			awake = append(awake, g)
		}
	}
	if len(awake) > 0 {
		cands = awake
	}
	if c.exploring && atSchedPoint && len(cands) > 1 && c.csBudget > 0 {
		// order: current first so that decision 0 = no context switch
		sort.SliceStable(cands, func(i, j int) bool {
			if (cands[i] == cur) != (cands[j] == cur) {
				return cands[i] == cur
			}
			return cands[i].id < cands[j].id
		})
		k := c.choose(len(cands), "sched")
		if cands[k] != cur {
			c.csBudget--
		}
		return cands[k]
	}
	for _, g := range cands {
		if g == cur {
			return g
		}
	}
	return cands[0]
}

// scheduleNext transfers control away from cur (which ended or blocks).
func (c *PathCtx) scheduleNext(cur *Goroutine, curEnded bool) {
	next := c.pickNext(cur, curEnded, true)
	if next == nil {
		c.onDeadlock(cur, curEnded)
		return
	}
	c.transfer(cur, next, curEnded)
}

func (c *PathCtx) transfer(cur, next *Goroutine, curEnded bool) {
	if next == cur {
		cur.blocked = nil
		cur.sleeping = false
		return
	}
	next.blocked = nil
	next.sleeping = false
	c.cur = next
	next.resume <- struct{}{}
	if curEnded {
		return
	}
	<-cur.resume
	if c.killed {
		panic(killSignal{})
	}
}

func (c *PathCtx) onDeadlock(cur *Goroutine, curEnded bool) {
	// nothing can run. If the main goroutine is waiting in vQuiesce it is woken by
	// its ready predicate, so reaching here means a real deadlock of main.
	desc := []string{}
	for _, g := range c.gors {
		if !g.done {
			desc = append(desc, fmt.Sprintf("g%d(%s)", g.id, g.name))
		}
	}
	c.finish("deadlock", "all goroutines blocked: "+strings.Join(desc, ","))
	if !curEnded {
		<-cur.resume
		panic(killSignal{})
	}
}

// block parks the current goroutine until ready() holds.
func (c *PathCtx) block(ready func() bool, what string) {
	g := c.cur
	for !ready() {
		g.blocked = ready
		c.scheduleNext(g, false)
	}
	g.blocked = nil
}

// yield is a scheduling point: another goroutine may run.
func (c *PathCtx) yield(sleep bool) {
	g := c.cur
	g.sleeping = sleep
	next := c.pickNext(g, false, true)
	if next == nil || next == g {
		g.sleeping = false
		return
	}
	c.transfer(g, next, false)
	g.sleeping = false
}

// quiesce runs all other goroutines until none of them can make progress.
func (c *PathCtx) quiesce() {
	g := c.cur
	c.quiesceEpoch++
	for {
		any := false
		for _, o := range c.gors {
			if o != g && !o.sleeping && c.ready(o) {
				any = true
			}
		}
		if !any {
			return
		}
		g.sleeping = true
		// main is "ready" again only when nobody else is
		g.blocked = func() bool {
			for _, o := range c.gors {
				if o != g && !o.sleeping && c.ready(o) {
					return false
				}
			}
			return true
		}
		c.scheduleNext(g, false)
		g.blocked = nil
		g.sleeping = false
	}
}

func (c *PathCtx) killAll() {
	c.killed = true
	for _, g := range c.gors {
		select {
		case g.resume <- struct{}{}:
		default:
		}
	}
	c.wg.Wait()
}

func posString(fset *token.FileSet, p token.Pos) string {
	if !p.IsValid() {
		return ""
	}
	ps := fset.Position(p)
	return fmt.Sprintf("%s:%d", shortPath(ps.Filename), ps.Line)
}

func shortPath(p string) string {
	p = strings.TrimPrefix(p, "/repo/")
	if i := strings.Index(p, "/pkg/mod/"); i >= 0 {
		p = p[i+9:]
	}
	return p
}
