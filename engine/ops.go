package main

import (
	"fmt"
	"go/constant"
	"go/token"
	"go/types"
	"unicode/utf8"

	"golang.org/x/tools/go/ssa"
)

func constantBool(c *ssa.Const) bool     { return constant.BoolVal(c.Value) }
func constantString(c *ssa.Const) string {
	if c.Value.Kind() == constant.String {
		return constant.StringVal(c.Value)
	}
	// string(rune) constant
	return string(rune(c.Int64()))
}

func (c *PathCtx) unop(fr *frame, instr *ssa.UnOp, x Value) Value {
	switch instr.Op {
	case token.ARROW:
		ch := x.(*Chan)
		v, ok := c.chanRecv(ch)
		if instr.CommaOk {
			return Tuple{v, mkBool(ok)}
		}
		return v
	case token.MUL:
		p := x.(*Value)
		if p == nil {
			c.nilDeref(fr, instr)
		}
		return copyVal(*p)
	case token.SUB:
		t := x.(*Term)
		if t.Sort.K == KFloat {
			return mkFloat(-t.F)
		}
		return tBVNeg(t)
	case token.NOT:
		return tNot(x.(*Term))
	case token.XOR:
		return tBVNot(x.(*Term))
	}
	panic(engineErr("unop %v", instr.Op))
}

func (c *PathCtx) binop(fr *frame, instr ssa.Instruction, op token.Token, t types.Type, x, y Value) Value {
	switch op {
	case token.EQL:
		return c.eqOp(t, x, y)
	case token.NEQ:
		return tNot(c.eqOp(t, x, y))
	}
	xt, ok1 := x.(*Term)
	yt, ok2 := y.(*Term)
	if !ok1 || !ok2 {
		if _, isO := x.(Opaque); isO {
			panic(inconclusive("arithmetic on opaque value %s", c.where(fr, instr)))
		}
		panic(engineErr("binop %v on %T, %T", op, x, y))
	}
	switch xt.Sort.K {
	case KStr:
		switch op {
		case token.ADD:
			return tConcat(xt, yt)
		case token.LSS:
			return tStrLt(xt, yt)
		case token.LEQ:
			return tStrLe(xt, yt)
		case token.GTR:
			return tStrLt(yt, xt)
		case token.GEQ:
			return tStrLe(yt, xt)
		}
	case KFloat:
		a, b := xt.F, yt.F
		if yt.Sort.K != KFloat {
			panic(engineErr("float binop with %v", yt.Sort))
		}
		switch op {
		case token.ADD:
			return mkFloat(a + b)
		case token.SUB:
			return mkFloat(a - b)
		case token.MUL:
			return mkFloat(a * b)
		case token.QUO:
			return mkFloat(a / b)
		case token.LSS:
			return mkBool(a < b)
		case token.LEQ:
			return mkBool(a <= b)
		case token.GTR:
			return mkBool(a > b)
		case token.GEQ:
			return mkBool(a >= b)
		}
	case KBool:
		switch op {
		case token.AND, token.LAND:
			return tAnd(xt, yt)
		case token.OR, token.LOR:
			return tOr(xt, yt)
		}
	case KBV:
		_, signed, _ := intInfo(t)
		w := xt.Sort.W
		switch op {
		case token.ADD:
			return tBV2("bvadd", xt, yt)
		case token.SUB:
			return tBV2("bvsub", xt, yt)
		case token.MUL:
			return tBV2("bvmul", xt, yt)
		case token.AND:
			return tBV2("bvand", xt, yt)
		case token.OR:
			return tBV2("bvor", xt, yt)
		case token.XOR:
			return tBV2("bvxor", xt, yt)
		case token.AND_NOT:
			return tBV2("bvand", xt, tBVNot(yt))
		case token.QUO, token.REM:
			if c.branch(tEq(yt, mkBV(w, 0)), "divzero") {
				panic(targetPanic{msg: "integer divide by zero", pos: c.where(fr, instr)})
			}
			if op == token.QUO {
				if signed {
					return tBV2("bvsdiv", xt, yt)
				}
				return tBV2("bvudiv", xt, yt)
			}
			if signed {
				return tBV2("bvsrem", xt, yt)
			}
			return tBV2("bvurem", xt, yt)
		case token.SHL, token.SHR:
			// y may have a different width; Go: count >= width gives 0 / sign fill
			yw := yt.Sort.W
			var cnt *Term
			var over *Term = tFalse
			switch {
			case yw == w:
				cnt = yt
			case yw < w:
				cnt = tZeroExt(w-yw, yt)
			default:
				over = tBVCmp("bvuge", yt, mkBV(yw, uint64(w)))
				cnt = tExtract(w-1, 0, yt)
			}
			var r *Term
			if op == token.SHL {
				r = tBV2("bvshl", xt, cnt)
				return tIte(over, mkBV(w, 0), r)
			}
			if signed {
				r = tBV2("bvashr", xt, cnt)
				return tIte(over, tBV2("bvashr", xt, mkBV(w, uint64(w-1))), r)
			}
			r = tBV2("bvlshr", xt, cnt)
			return tIte(over, mkBV(w, 0), r)
		case token.LSS:
			if signed {
				return tBVCmp("bvslt", xt, yt)
			}
			return tBVCmp("bvult", xt, yt)
		case token.LEQ:
			if signed {
				return tBVCmp("bvsle", xt, yt)
			}
			return tBVCmp("bvule", xt, yt)
		case token.GTR:
			if signed {
				return tBVCmp("bvsgt", xt, yt)
			}
			return tBVCmp("bvugt", xt, yt)
		case token.GEQ:
			if signed {
				return tBVCmp("bvsge", xt, yt)
			}
			return tBVCmp("bvuge", xt, yt)
		}
	}
	panic(engineErr("binop %v on sort %v", op, xt.Sort))
}

func (c *PathCtx) eqOp(t types.Type, x, y Value) *Term {
	// comparisons against nil of slices/maps/funcs
	if isNilComparable(x) || isNilComparable(y) {
		switch x.(type) {
		case []Value, *ssa.Function, *Closure, *NativeFunc:
			return mkBool(isNilValue(x) == isNilValue(y) && isNilValue(x))
		}
	}
	if mx, ok := x.(*Map); ok {
		return mkBool(mx == y.(*Map))
	}
	return equals(t, x, y)
}

func isNilComparable(v Value) bool {
	switch v.(type) {
	case []Value, *ssa.Function, *Closure, *NativeFunc:
		return true
	}
	return false
}

func (c *PathCtx) conv(tDst, tSrc types.Type, x Value) Value {
	ud := tDst.Underlying()
	us := tSrc.Underlying()
	switch us := us.(type) {
	case *types.Pointer:
		if b, ok := ud.(*types.Basic); ok && b.Kind() == types.UnsafePointer {
			return UnsafePtr{P: x}
		}
		if _, ok := ud.(*types.Pointer); ok {
			return x
		}
	case *types.Slice:
		if isString(ud) {
			// []byte / []rune -> string : concrete only
			sl := x.([]Value)
			if b, ok := us.Elem().Underlying().(*types.Basic); ok && b.Kind() == types.Int32 {
				rs := make([]rune, len(sl))
				for i, e := range sl {
					et := e.(*Term)
					if !et.Const {
						panic(inconclusive("symbolic []rune to string"))
					}
					rs[i] = rune(et.Int64())
				}
				return mkStr(string(rs))
			}
			bs := make([]byte, len(sl))
			for i, e := range sl {
				et := e.(*Term)
				if !et.Const {
					panic(inconclusive("symbolic []byte to string"))
				}
				bs[i] = byte(et.U)
			}
			return mkStr(string(bs))
		}
		return x
	case *types.Basic:
		if us.Kind() == types.UnsafePointer {
			if up, ok := x.(UnsafePtr); ok {
				if _, ok := ud.(*types.Pointer); ok {
					if up.P == nil {
						return (*Value)(nil)
					}
					return up.P
				}
				return up
			}
		}
		xt, ok := x.(*Term)
		if !ok {
			panic(engineErr("conv basic from %T", x))
		}
		if isString(us) {
			if isString(ud) {
				return xt
			}
			if sl, ok := ud.(*types.Slice); ok {
				if !xt.Const {
					panic(inconclusive("symbolic string to slice conversion"))
				}
				if b, ok := sl.Elem().Underlying().(*types.Basic); ok && b.Kind() == types.Int32 {
					var out []Value
					for _, r := range xt.S {
						out = append(out, mkBV(32, uint64(r)))
					}
					return out
				}
				out := make([]Value, len(xt.S))
				for i := 0; i < len(xt.S); i++ {
					out[i] = mkBV(8, uint64(xt.S[i]))
				}
				return out
			}
		}
		sw, ssigned, sok := intInfo(us)
		dw, _, dok := intInfo(ud)
		switch {
		case sok && dok:
			_ = sw
			return tResize(xt, dw, ssigned)
		case sok && isString(ud):
			if !xt.Const {
				panic(inconclusive("string(symbolic int)"))
			}
			r := rune(xt.Int64())
			if !utf8.ValidRune(r) {
				r = utf8.RuneError
			}
			return mkStr(string(r))
		case sok && isFloat(ud):
			if !xt.Const {
				return Opaque{T: tDst}
			}
			if ssigned {
				return mkFloat(float64(xt.Int64()))
			}
			return mkFloat(float64(xt.U))
		case isFloat(us) && dok:
			if xt.Sort.K != KFloat {
				panic(engineErr("float conv"))
			}
			return mkBV(dw, uint64(int64(xt.F)))
		case isFloat(us) && isFloat(ud):
			if b := ud.(*types.Basic); b.Kind() == types.Float32 {
				return mkFloat(float64(float32(xt.F)))
			}
			return xt
		}
	}
	if o, ok := x.(Opaque); ok {
		return Opaque{T: tDst, }.with(o)
	}
	panic(engineErr("conv %v -> %v (%T)", tSrc, tDst, x))
}

func (o Opaque) with(Opaque) Opaque { return o }

func (c *PathCtx) slice(fr *frame, instr *ssa.Slice, x, lo, hi, max Value) Value {
	var Len, Cap int
	switch x := x.(type) {
	case *Term: // string
		return c.sliceString(fr, instr, x, lo, hi)
	case []Value:
		Len, Cap = len(x), cap(x)
	case *Value:
		if x == nil {
			c.nilDeref(fr, instr)
		}
		a := (*x).(Array)
		Len, Cap = len(a), cap(a)
	}
	l, h, m := 0, Len, Cap
	if lo != nil {
		l = int(c.concretize(lo.(*Term), 0, int64(Cap), "slice-lo"))
	}
	if hi != nil {
		h = int(c.concretize(hi.(*Term), 0, int64(Cap), "slice-hi"))
	}
	if max != nil {
		m = int(c.concretize(max.(*Term), 0, int64(Cap), "slice-max"))
	}
	if l < 0 || l > h || h > m || m > Cap {
		panic(targetPanic{msg: fmt.Sprintf("slice bounds out of range [%d:%d:%d] with capacity %d", l, h, m, Cap), pos: c.where(fr, instr)})
	}
	switch x := x.(type) {
	case []Value:
		if x == nil {
			return []Value(nil)
		}
		return x[l:h:m]
	case *Value:
		return []Value((*x).(Array)[l:h:m])
	}
	panic(engineErr("slice of %T", x))
}

func (c *PathCtx) sliceString(fr *frame, instr *ssa.Slice, s *Term, lo, hi Value) Value {
	if s.Const {
		l, h := 0, len(s.S)
		if lo != nil {
			l = int(c.concretize(lo.(*Term), 0, int64(len(s.S)), "str-lo"))
		}
		if hi != nil {
			h = int(c.concretize(hi.(*Term), 0, int64(len(s.S)), "str-hi"))
		}
		if l < 0 || l > h || h > len(s.S) {
			panic(targetPanic{msg: fmt.Sprintf("slice bounds out of range [%d:%d] with length %d", l, h, len(s.S)), pos: c.where(fr, instr)})
		}
		return mkStr(s.S[l:h])
	}
	// symbolic string: s[lo:hi] with bounds check forked
	n := tStrLenInt(s)
	var l, h *Term = mkIntC(0), n
	if lo != nil {
		l = signedBV2Int(lo.(*Term))
	}
	if hi != nil {
		h = signedBV2Int(hi.(*Term))
	}
	okc := tAnd(tAnd(tIntCmp("<=", mkIntC(0), l), tIntCmp("<=", l, h)), tIntCmp("<=", h, n))
	if !c.branch(okc, "str-slice-bounds") {
		panic(targetPanic{msg: "slice bounds out of range (symbolic string)", pos: c.where(fr, instr)})
	}
	return tSubstr(s, l, tIntOp("-", h, l))
}

// signedBV2Int interprets a 64-bit signed BV as math Int.
func signedBV2Int(t *Term) *Term {
	if t.Const {
		return mkIntC(t.Int64())
	}
	if t.Op == "int2bv" {
		return t.Args[0] // produced from a length/index (in range by construction)
	}
	w := t.Sort.W
	neg := tBVCmp("bvslt", t, mkBV(w, 0))
	return tIte(neg, mkApp(SInt, "-", mkIntC(0), mkApp(SInt, "bv2nat", tBVNeg(t))), mkApp(SInt, "bv2nat", t))
}

func (c *PathCtx) lookup(fr *frame, instr *ssa.Lookup, x, idx Value) Value {
	switch x := x.(type) {
	case *Map:
		v, ok := x.lookup(c, idx)
		if !ok {
			v = zero(instr.X.Type().Underlying().(*types.Map).Elem())
		}
		if instr.CommaOk {
			return Tuple{v, mkBool(ok)}
		}
		return v
	case *Term:
		if !x.Const {
			panic(inconclusive("index into symbolic string"))
		}
		i := c.indexCheck(fr, instr, idx.(*Term), len(x.S))
		return mkBV(8, uint64(x.S[i]))
	}
	panic(engineErr("lookup on %T", x))
}

func (c *PathCtx) typeAssert(fr *frame, instr *ssa.TypeAssert, itf Iface) Value {
	var v Value
	ok := false
	if idst, isI := instr.AssertedType.Underlying().(*types.Interface); isI {
		if itf.T != nil && types.Implements(itf.T, idst) {
			v = itf
			ok = true
		} else if itf.T != nil {
			// pointer receiver method sets are covered by Implements on the dynamic type
			ok = false
		}
	} else if itf.T != nil && types.Identical(itf.T, instr.AssertedType) {
		v = itf.V
		ok = true
	}
	if !ok {
		if !instr.CommaOk {
			panic(targetPanic{msg: fmt.Sprintf("interface conversion: interface is %v, not %v", itf.T, instr.AssertedType), pos: c.where(fr, instr)})
		}
		v = zero(instr.AssertedType)
	}
	if instr.CommaOk {
		return Tuple{v, mkBool(ok)}
	}
	return v
}

func (c *PathCtx) rangeIter(x Value, t types.Type) iterator {
	switch x := x.(type) {
	case *Map:
		it := &mapIter{m: x, order: c.entry.MapOrder && c.lenient == 0}
		if x != nil {
			it.pending = append(it.pending, x.keys...)
		} else {
			it.m = &Map{}
		}
		return it
	case *Term:
		if !x.Const {
			panic(inconclusive("range over symbolic string"))
		}
		return &stringIter{s: x.S}
	}
	panic(engineErr("range over %T", x))
}

func (c *PathCtx) callBuiltin(caller *frame, pos token.Pos, fn *ssa.Builtin, args []Value, site ssa.Instruction) Value {
	switch fn.Name() {
	case "append":
		if len(args) == 1 {
			return args[0]
		}
		if s, ok := args[1].(*Term); ok {
			// append([]byte, string...)
			if !s.Const {
				panic(inconclusive("append of symbolic string bytes"))
			}
			out := args[0].([]Value)
			for i := 0; i < len(s.S); i++ {
				out = append(out, mkBV(8, uint64(s.S[i])))
			}
			return out
		}
		a := args[0].([]Value)
		b := args[1].([]Value)
		if len(b) == 0 {
			return a
		}
		// Go semantics: reuse the backing array when capacity allows
		if len(a)+len(b) <= cap(a) {
			r := a[:len(a)+len(b)]
			for i, e := range b {
				r[len(a)+i] = copyVal(e)
			}
			return r
		}
		nc := (len(a) + len(b)) * 2
		r := make([]Value, len(a), nc)
		copy(r, a)
		for _, e := range b {
			r = append(r, copyVal(e))
		}
		// remaining capacity must hold zero values lazily: fill on reslice is not
		// tracked, so fill now with nil and let zeroing happen via elemZero
		if site != nil {
			if st, ok := site.(ssa.Value); ok {
				if slt, ok := st.Type().Underlying().(*types.Slice); ok {
					full := r[:cap(r)]
					for i := len(r); i < len(full); i++ {
						full[i] = zero(slt.Elem())
					}
				}
			}
		}
		return r
	case "copy":
		dst := args[0].([]Value)
		if s, ok := args[1].(*Term); ok {
			if !s.Const {
				panic(inconclusive("copy from symbolic string"))
			}
			n := 0
			for i := 0; i < len(s.S) && i < len(dst); i++ {
				dst[i] = mkBV(8, uint64(s.S[i]))
				n++
			}
			return mkBV(64, uint64(n))
		}
		src := args[1].([]Value)
		n := len(src)
		if len(dst) < n {
			n = len(dst)
		}
		tmp := make([]Value, n)
		for i := 0; i < n; i++ {
			tmp[i] = copyVal(src[i])
		}
		copy(dst, tmp)
		return mkBV(64, uint64(n))
	case "close":
		c.chanClose(args[0].(*Chan))
		return nil
	case "delete":
		m := args[0].(*Map)
		if m != nil {
			m.delete(c, args[1])
		}
		return nil
	case "print", "println":
		return nil
	case "len":
		switch x := args[0].(type) {
		case *Term:
			return tStrLen(x, 64)
		case Array:
			return mkBV(64, uint64(len(x)))
		case *Value:
			return mkBV(64, uint64(len((*x).(Array))))
		case []Value:
			return mkBV(64, uint64(len(x)))
		case *Map:
			return mkBV(64, uint64(x.Len()))
		case *Chan:
			if x == nil {
				return mkBV(64, 0)
			}
			return mkBV(64, uint64(len(x.buf)))
		}
		panic(engineErr("len of %T", args[0]))
	case "cap":
		switch x := args[0].(type) {
		case Array:
			return mkBV(64, uint64(cap(x)))
		case *Value:
			return mkBV(64, uint64(cap((*x).(Array))))
		case []Value:
			return mkBV(64, uint64(cap(x)))
		case *Chan:
			if x == nil {
				return mkBV(64, 0)
			}
			return mkBV(64, uint64(x.cap))
		}
		panic(engineErr("cap of %T", args[0]))
	case "min", "max":
		r := args[0].(*Term)
		_, signed, _ := intInfo(site.(ssa.Value).Type())
		for _, a := range args[1:] {
			at := a.(*Term)
			var lt *Term
			switch r.Sort.K {
			case KStr:
				lt = tStrLt(at, r)
			case KFloat:
				lt = mkBool(at.F < r.F)
			default:
				if signed {
					lt = tBVCmp("bvslt", at, r)
				} else {
					lt = tBVCmp("bvult", at, r)
				}
			}
			if fn.Name() == "max" {
				lt = tNot(tOr(lt, tEq(at, r)))
				// at > r
				if r.Sort.K == KFloat {
					lt = mkBool(at.F > r.F)
				}
			}
			r = tIte(lt, at, r)
		}
		return r
	case "panic":
		panic(targetPanic{v: args[0], pos: posString(c.eng.prog.Fset, pos)})
	case "recover":
		return doRecover(caller)
	case "ssa:wrapnilchk":
		recv := args[0]
		if p, ok := recv.(*Value); ok && p == nil {
			panic(targetPanic{msg: "value method called using nil pointer", pos: posString(c.eng.prog.Fset, pos)})
		}
		return recv
	case "clear":
		switch x := args[0].(type) {
		case *Map:
			if x != nil {
				x.keys, x.vals = nil, nil
			}
		case []Value:
			panic(inconclusive("clear(slice)"))
		}
		return nil
	}
	panic(inconclusive("builtin %s", fn.Name()))
}

// ---------- channels ----------

func (c *PathCtx) chanSend(ch *Chan, v Value) {
	if c.exploring {
		c.yield(false)
	}
	if ch == nil {
		c.block(func() bool { return false }, "send on nil chan")
	}
	if ch.closed {
		panic(targetPanic{msg: "send on closed channel"})
	}
	v = copyVal(v)
	if ch.cap > 0 {
		c.block(func() bool { return ch.closed || len(ch.buf) < ch.cap }, "chan send")
		if ch.closed {
			panic(targetPanic{msg: "send on closed channel"})
		}
		ch.buf = append(ch.buf, v)
		return
	}
	// unbuffered: park the value until a receiver takes it
	it := &sendItem{v: v, g: c.cur}
	ch.sendq = append(ch.sendq, it)
	c.block(func() bool { return it.taken || ch.closed }, "chan send (unbuffered)")
	if !it.taken {
		panic(targetPanic{msg: "send on closed channel"})
	}
}

func (ch *Chan) recvReady() bool {
	return ch != nil && (len(ch.buf) > 0 || len(ch.sendq) > 0 || ch.closed)
}

func (ch *Chan) take() (Value, bool) {
	if len(ch.buf) > 0 {
		v := ch.buf[0]
		ch.buf = append([]Value{}, ch.buf[1:]...)
		return v, true
	}
	if len(ch.sendq) > 0 {
		it := ch.sendq[0]
		ch.sendq = append([]*sendItem{}, ch.sendq[1:]...)
		it.taken = true
		return it.v, true
	}
	return zero(ch.et), false // closed
}

func (c *PathCtx) chanRecv(ch *Chan) (Value, bool) {
	if c.exploring {
		c.yield(false)
	}
	if ch == nil {
		c.block(func() bool { return false }, "recv on nil chan")
	}
	if ch.cap == 0 && !ch.recvReady() {
		// a parked receiver on an unbuffered channel makes a non-blocking (select) send ready
		ch.recvWaiting++
		c.block(ch.recvReady, "chan recv")
		ch.recvWaiting--
	} else {
		c.block(ch.recvReady, "chan recv")
	}
	return ch.take()
}

func (c *PathCtx) chanClose(ch *Chan) {
	if ch == nil {
		panic(targetPanic{msg: "close of nil channel"})
	}
	if ch.closed {
		panic(targetPanic{msg: "close of closed channel"})
	}
	ch.closed = true
}

func (ch *Chan) sendReady() bool {
	if ch == nil {
		return false
	}
	if ch.closed {
		return true // will panic
	}
	if ch.cap > 0 {
		return len(ch.buf) < ch.cap
	}
	return ch.recvWaiting > len(ch.buf) // every waiting receiver takes one handed-over value
}

func (c *PathCtx) selectInstr(fr *frame, instr *ssa.Select) Value {
	if c.exploring {
		c.yield(false)
	}
	type st struct {
		ch   *Chan
		send bool
		v    Value
	}
	states := make([]st, len(instr.States))
	for i, s := range instr.States {
		states[i] = st{ch: fr.get(s.Chan).(*Chan), send: s.Dir == types.SendOnly}
		if s.Send != nil {
			states[i].v = fr.get(s.Send)
		}
	}
	readyIdx := func() []int {
		var r []int
		for i, s := range states {
			if s.send {
				if s.ch.sendReady() {
					r = append(r, i)
				}
			} else if s.ch.recvReady() {
				r = append(r, i)
			}
		}
		return r
	}
	chosen := -1
	r := readyIdx()
	if len(r) == 0 {
		if !instr.Blocking {
			chosen = -1
		} else {
			// register as waiting receiver on unbuffered channels so senders can proceed
			for _, s := range states {
				if !s.send && s.ch != nil {
					s.ch.recvWaiting++
				}
			}
			c.block(func() bool { return len(readyIdx()) > 0 }, "select")
			for _, s := range states {
				if !s.send && s.ch != nil {
					s.ch.recvWaiting--
				}
			}
			r = readyIdx()
		}
	}
	if len(r) > 0 {
		k := 0
		if len(r) > 1 {
			k = c.choose(len(r), "select")
		}
		chosen = r[k]
	}
	// busy-loop detection: a goroutine that keeps selecting the receive from one and the
	// same CLOSED, drained channel (always ready, changes nothing) spins. After 200
	// consecutive such selects it is recorded as a spinning goroutine and parked for the
	// rest of the path, so that the path can go on (vBusy() reports it).
	if chosen >= 0 && !states[chosen].send && states[chosen].ch != nil && states[chosen].ch.closed && len(states[chosen].ch.buf) == 0 {
		g := c.cur
		if g.spinCh == states[chosen].ch {
			g.spin++
		} else {
			g.spinCh, g.spin = states[chosen].ch, 1
		}
		if g.spin > 200 {
			c.side["busy"] = g.name + " at " + c.where(fr, instr)
			c.block(func() bool { return false }, "spinning goroutine parked")
		}
	} else {
		c.cur.spinCh, c.cur.spin = nil, 0
	}
	res := Tuple{mkBV(64, uint64(int64(chosen))), tFalse}
	recvOk := false
	var recvVals []Value
	for i, s := range instr.States {
		if s.Dir == types.RecvOnly {
			var v Value
			if i == chosen {
				var ok bool
				v, ok = states[i].ch.take()
				recvOk = ok
			} else {
				v = zero(s.Chan.Type().Underlying().(*types.Chan).Elem())
			}
			recvVals = append(recvVals, v)
		} else if i == chosen {
			ch := states[i].ch
			if ch.closed {
				panic(targetPanic{msg: "send on closed channel"})
			}
			if ch.cap > 0 {
				ch.buf = append(ch.buf, copyVal(states[i].v))
			} else {
				// a receiver is waiting: hand over through the buffer
				ch.buf = append(ch.buf, copyVal(states[i].v))
			}
		}
	}
	res[1] = mkBool(recvOk)
	res = append(res, recvVals...)
	return res
}
