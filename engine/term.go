package main

// SMT terms with constant folding. All Go scalars (bool, intN, uintN, string)
// are *Term values. Bit-vectors have the width of the Go type, so Go's
// wrap-around arithmetic is the SMT-LIB semantics by construction.

import (
	"fmt"
	"math/bits"
	"strconv"
	"strings"
)

type SortKind uint8

const (
	KBool SortKind = iota
	KBV
	KStr
	KInt // mathematical integer (only for str.len / indices)
	KFloat
)

type Sort struct {
	K SortKind
	W int
}

var (
	SBool  = Sort{KBool, 0}
	SStr   = Sort{KStr, 0}
	SInt   = Sort{KInt, 0}
	SFloat = Sort{KFloat, 64}
)

func SBV(w int) Sort { return Sort{KBV, w} }

func (s Sort) SMT() string {
	switch s.K {
	case KBool:
		return "Bool"
	case KBV:
		return fmt.Sprintf("(_ BitVec %d)", s.W)
	case KStr:
		return "String"
	case KInt:
		return "Int"
	}
	return "?"
}

type Term struct {
	Sort  Sort
	Op    string // "" => const or var
	Args  []*Term
	Const bool
	U     uint64  // const value for BV/Bool (0/1) / Int (as int64)
	S     string  // const value for Str
	F     float64 // const value for float
	Name  string  // variable name (Op=="" && !Const)
	Par   []int   // op parameters (extract hi lo, extend n)
	size  int
}

func (t *Term) IsConst() bool { return t.Const }

func mask(w int) uint64 {
	if w >= 64 {
		return ^uint64(0)
	}
	return (uint64(1) << uint(w)) - 1
}

func signExt(u uint64, w int) int64 {
	if w >= 64 {
		return int64(u)
	}
	sh := uint(64 - w)
	return int64(u<<sh) >> sh
}

var tTrue = &Term{Sort: SBool, Const: true, U: 1, size: 1}
var tFalse = &Term{Sort: SBool, Const: true, U: 0, size: 1}

func mkBool(b bool) *Term {
	if b {
		return tTrue
	}
	return tFalse
}
func mkBV(w int, u uint64) *Term {
	return &Term{Sort: SBV(w), Const: true, U: u & mask(w), size: 1}
}
func mkStr(s string) *Term   { return &Term{Sort: SStr, Const: true, S: s, size: 1} }
func mkIntC(i int64) *Term   { return &Term{Sort: SInt, Const: true, U: uint64(i), size: 1} }
func mkFloat(f float64) *Term { return &Term{Sort: SFloat, Const: true, F: f, size: 1} }
func mkVar(s Sort, name string) *Term {
	return &Term{Sort: s, Name: name, size: 1}
}

func mkApp(s Sort, op string, args ...*Term) *Term {
	sz := 1
	for _, a := range args {
		sz += a.size
		if sz > 1<<30 {
			sz = 1 << 30
		}
	}
	return &Term{Sort: s, Op: op, Args: args, size: sz}
}

func (t *Term) Bool() bool  { return t.U != 0 }
func (t *Term) Int64() int64 {
	if t.Sort.K == KBV {
		return signExt(t.U, t.Sort.W)
	}
	return int64(t.U)
}

// ---------- boolean ----------

func tNot(a *Term) *Term {
	if a.Const {
		return mkBool(a.U == 0)
	}
	if a.Op == "not" {
		return a.Args[0]
	}
	return mkApp(SBool, "not", a)
}
func tAnd(a, b *Term) *Term {
	if a.Const {
		if a.U == 0 {
			return tFalse
		}
		return b
	}
	if b.Const {
		if b.U == 0 {
			return tFalse
		}
		return a
	}
	if a == b {
		return a
	}
	return mkApp(SBool, "and", a, b)
}
func tOr(a, b *Term) *Term {
	if a.Const {
		if a.U != 0 {
			return tTrue
		}
		return b
	}
	if b.Const {
		if b.U != 0 {
			return tTrue
		}
		return a
	}
	if a == b {
		return a
	}
	return mkApp(SBool, "or", a, b)
}
func tImplies(a, b *Term) *Term { return tOr(tNot(a), b) }

func tIte(c, a, b *Term) *Term {
	if c.Const {
		if c.U != 0 {
			return a
		}
		return b
	}
	if a == b {
		return a
	}
	if a.Const && b.Const && a.Sort == b.Sort {
		if a.Sort.K == KBool {
			if a.U == 1 && b.U == 0 {
				return c
			}
			if a.U == 0 && b.U == 1 {
				return tNot(c)
			}
			if a.U == b.U {
				return a
			}
		} else if a.Sort.K == KBV && a.U == b.U {
			return a
		} else if a.Sort.K == KStr && a.S == b.S {
			return a
		}
	}
	return mkApp(a.Sort, "ite", c, a, b)
}

func tEq(a, b *Term) *Term {
	if a.Sort != b.Sort {
		panic(fmt.Sprintf("tEq: sort mismatch %v vs %v (%s / %s)", a.Sort, b.Sort, a.String(), b.String()))
	}
	if a == b {
		return tTrue
	}
	if a.Const && b.Const {
		switch a.Sort.K {
		case KStr:
			return mkBool(a.S == b.S)
		case KFloat:
			return mkBool(a.F == b.F)
		default:
			return mkBool(a.U == b.U)
		}
	}
	if a.Sort.K == KBool {
		if a.Const {
			if a.U != 0 {
				return b
			}
			return tNot(b)
		}
		if b.Const {
			if b.U != 0 {
				return a
			}
			return tNot(a)
		}
	}
	return mkApp(SBool, "=", a, b)
}

// ---------- bit-vectors ----------

func bvFold(op string, w int, x, y uint64) (uint64, bool) {
	m := mask(w)
	switch op {
	case "bvadd":
		return (x + y) & m, true
	case "bvsub":
		return (x - y) & m, true
	case "bvmul":
		return (x * y) & m, true
	case "bvand":
		return x & y, true
	case "bvor":
		return x | y, true
	case "bvxor":
		return x ^ y, true
	case "bvudiv":
		if y == 0 {
			return m, true
		}
		return x / y, true
	case "bvurem":
		if y == 0 {
			return x, true
		}
		return x % y, true
	case "bvsdiv":
		sx, sy := signExt(x, w), signExt(y, w)
		if sy == 0 {
			return 0, false
		}
		if sy == -1 {
			return uint64(-sx) & m, true
		}
		return uint64(sx/sy) & m, true
	case "bvsrem":
		sx, sy := signExt(x, w), signExt(y, w)
		if sy == 0 {
			return 0, false
		}
		if sy == -1 {
			return 0, true
		}
		return uint64(sx%sy) & m, true
	case "bvshl":
		if y >= uint64(w) {
			return 0, true
		}
		return (x << y) & m, true
	case "bvlshr":
		if y >= uint64(w) {
			return 0, true
		}
		return x >> y, true
	case "bvashr":
		sx := signExt(x, w)
		if y >= uint64(w) {
			if sx < 0 {
				return m, true
			}
			return 0, true
		}
		return uint64(sx>>y) & m, true
	}
	return 0, false
}

func tBV2(op string, a, b *Term) *Term {
	if a.Sort != b.Sort || a.Sort.K != KBV {
		panic(fmt.Sprintf("tBV2 %s: sort mismatch %v vs %v", op, a.Sort, b.Sort))
	}
	w := a.Sort.W
	if a.Const && b.Const {
		if r, ok := bvFold(op, w, a.U, b.U); ok {
			return mkBV(w, r)
		}
	}
	// light identities
	switch op {
	case "bvadd":
		if a.Const && a.U == 0 {
			return b
		}
		if b.Const && b.U == 0 {
			return a
		}
	case "bvsub":
		if b.Const && b.U == 0 {
			return a
		}
		if a == b {
			return mkBV(w, 0)
		}
	case "bvmul":
		if a.Const && a.U == 1 {
			return b
		}
		if b.Const && b.U == 1 {
			return a
		}
		if (a.Const && a.U == 0) || (b.Const && b.U == 0) {
			return mkBV(w, 0)
		}
	case "bvshl", "bvlshr", "bvashr":
		if b.Const && b.U == 0 {
			return a
		}
	case "bvor", "bvxor":
		if a.Const && a.U == 0 {
			return b
		}
		if b.Const && b.U == 0 {
			return a
		}
	}
	return mkApp(a.Sort, op, a, b)
}

func tBVNeg(a *Term) *Term {
	if a.Const {
		return mkBV(a.Sort.W, -a.U)
	}
	return mkApp(a.Sort, "bvneg", a)
}
func tBVNot(a *Term) *Term {
	if a.Const {
		return mkBV(a.Sort.W, ^a.U)
	}
	return mkApp(a.Sort, "bvnot", a)
}

// comparison: op in bvult bvule bvugt bvuge bvslt bvsle bvsgt bvsge
func tBVCmp(op string, a, b *Term) *Term {
	if a.Sort != b.Sort || a.Sort.K != KBV {
		panic(fmt.Sprintf("tBVCmp %s: sort mismatch %v vs %v", op, a.Sort, b.Sort))
	}
	if a.Const && b.Const {
		w := a.Sort.W
		var r bool
		switch op {
		case "bvult":
			r = a.U < b.U
		case "bvule":
			r = a.U <= b.U
		case "bvugt":
			r = a.U > b.U
		case "bvuge":
			r = a.U >= b.U
		case "bvslt":
			r = signExt(a.U, w) < signExt(b.U, w)
		case "bvsle":
			r = signExt(a.U, w) <= signExt(b.U, w)
		case "bvsgt":
			r = signExt(a.U, w) > signExt(b.U, w)
		case "bvsge":
			r = signExt(a.U, w) >= signExt(b.U, w)
		}
		return mkBool(r)
	}
	if a == b {
		switch op {
		case "bvule", "bvuge", "bvsle", "bvsge":
			return tTrue
		default:
			return tFalse
		}
	}
	return mkApp(SBool, op, a, b)
}

func tExtract(hi, lo int, a *Term) *Term {
	w := hi - lo + 1
	if a.Const {
		return mkBV(w, a.U>>uint(lo))
	}
	if lo == 0 && w == a.Sort.W {
		return a
	}
	t := mkApp(SBV(w), "extract", a)
	t.Par = []int{hi, lo}
	return t
}
func tZeroExt(n int, a *Term) *Term {
	if n == 0 {
		return a
	}
	if a.Const {
		return mkBV(a.Sort.W+n, a.U)
	}
	t := mkApp(SBV(a.Sort.W+n), "zero_extend", a)
	t.Par = []int{n}
	return t
}
func tSignExt(n int, a *Term) *Term {
	if n == 0 {
		return a
	}
	if a.Const {
		return mkBV(a.Sort.W+n, uint64(signExt(a.U, a.Sort.W)))
	}
	t := mkApp(SBV(a.Sort.W+n), "sign_extend", a)
	t.Par = []int{n}
	return t
}

// tResize converts bit-vector a to width w (signed source => sign extension).
func tResize(a *Term, w int, signedSrc bool) *Term {
	sw := a.Sort.W
	switch {
	case w == sw:
		return a
	case w < sw:
		return tExtract(w-1, 0, a)
	case signedSrc:
		return tSignExt(w-sw, a)
	default:
		return tZeroExt(w-sw, a)
	}
}

// ---------- strings ----------

func tConcat(a, b *Term) *Term {
	if a.Const && b.Const {
		return mkStr(a.S + b.S)
	}
	if a.Const && a.S == "" {
		return b
	}
	if b.Const && b.S == "" {
		return a
	}
	return mkApp(SStr, "str.++", a, b)
}

// tStrLenInt returns the mathematical-integer length.
func tStrLenInt(a *Term) *Term {
	if a.Const {
		return mkIntC(int64(len(a.S)))
	}
	return mkApp(SInt, "str.len", a)
}

// tInt2BV converts math Int to a BV of width w.
func tInt2BV(a *Term, w int) *Term {
	if a.Const {
		return mkBV(w, a.U)
	}
	t := mkApp(SBV(w), "int2bv", a)
	t.Par = []int{w}
	return t
}

// tBV2Int converts an (unsigned) BV to math Int.
func tBV2Int(a *Term) *Term {
	if a.Const {
		return mkIntC(int64(a.U))
	}
	if a.Op == "int2bv" {
		// lengths are tiny and non-negative: bv2nat(int2bv(x)) = x for 0<=x<2^w
		if a.Args[0].Op == "str.len" || a.Args[0].Op == "str.indexof" {
			if a.Args[0].Op == "str.len" {
				return a.Args[0]
			}
		}
	}
	return mkApp(SInt, "bv2nat", a)
}

func tStrLen(a *Term, w int) *Term { return tInt2BV(tStrLenInt(a), w) }

func tStrContains(a, b *Term) *Term {
	if a.Const && b.Const {
		return mkBool(strings.Contains(a.S, b.S))
	}
	if b.Const && b.S == "" {
		return tTrue
	}
	return mkApp(SBool, "str.contains", a, b)
}
func tStrPrefixOf(p, s *Term) *Term { // p is prefix of s
	if p.Const && s.Const {
		return mkBool(strings.HasPrefix(s.S, p.S))
	}
	if p.Const && p.S == "" {
		return tTrue
	}
	return mkApp(SBool, "str.prefixof", p, s)
}
func tStrSuffixOf(p, s *Term) *Term {
	if p.Const && s.Const {
		return mkBool(strings.HasSuffix(s.S, p.S))
	}
	if p.Const && p.S == "" {
		return tTrue
	}
	return mkApp(SBool, "str.suffixof", p, s)
}
func tStrLt(a, b *Term) *Term {
	if a.Const && b.Const {
		return mkBool(a.S < b.S)
	}
	return mkApp(SBool, "str.<", a, b)
}
func tStrLe(a, b *Term) *Term {
	if a.Const && b.Const {
		return mkBool(a.S <= b.S)
	}
	return mkApp(SBool, "str.<=", a, b)
}

// tSubstr: s[off : off+n] with Int terms.
func tSubstr(s, off, n *Term) *Term {
	if s.Const && off.Const && n.Const {
		o, l := int(int64(off.U)), int(int64(n.U))
		if o >= 0 && l >= 0 && o+l <= len(s.S) {
			return mkStr(s.S[o : o+l])
		}
	}
	return mkApp(SStr, "str.substr", s, off, n)
}
func tIndexOf(s, sub, from *Term) *Term {
	if s.Const && sub.Const && from.Const {
		f := int(int64(from.U))
		if f >= 0 && f <= len(s.S) {
			i := strings.Index(s.S[f:], sub.S)
			if i >= 0 {
				i += f
			}
			return mkIntC(int64(i))
		}
	}
	return mkApp(SInt, "str.indexof", s, sub, from)
}
func tStrReplaceAll(s, a, b *Term) *Term {
	if s.Const && a.Const && b.Const && a.S != "" {
		return mkStr(strings.ReplaceAll(s.S, a.S, b.S))
	}
	return mkApp(SStr, "str.replace_all", s, a, b)
}

func tIntOp(op string, a, b *Term) *Term {
	if a.Const && b.Const {
		x, y := int64(a.U), int64(b.U)
		switch op {
		case "+":
			return mkIntC(x + y)
		case "-":
			return mkIntC(x - y)
		}
	}
	return mkApp(SInt, op, a, b)
}
func tIntCmp(op string, a, b *Term) *Term {
	if a.Const && b.Const {
		x, y := int64(a.U), int64(b.U)
		switch op {
		case "<":
			return mkBool(x < y)
		case "<=":
			return mkBool(x <= y)
		case ">":
			return mkBool(x > y)
		case ">=":
			return mkBool(x >= y)
		}
	}
	return mkApp(SBool, op, a, b)
}

// ---------- printing ----------

func smtStrLit(s string) string {
	var b strings.Builder
	b.WriteByte('"')
	for i := 0; i < len(s); i++ {
		c := s[i]
		switch {
		case c == '"':
			b.WriteString(`""`)
		case c == '\\':
			b.WriteString(`\u{5c}`)
		case c >= 0x20 && c < 0x7f:
			b.WriteByte(c)
		default:
			fmt.Fprintf(&b, `\u{%x}`, c)
		}
	}
	b.WriteByte('"')
	return b.String()
}

func constSMT(t *Term) string {
	switch t.Sort.K {
	case KBool:
		if t.U != 0 {
			return "true"
		}
		return "false"
	case KBV:
		w := t.Sort.W
		if w%4 == 0 {
			return fmt.Sprintf("#x%0*x", w/4, t.U)
		}
		return fmt.Sprintf("#b%0*b", w, t.U)
	case KStr:
		return smtStrLit(t.S)
	case KInt:
		i := int64(t.U)
		if i < 0 {
			return fmt.Sprintf("(- %d)", -i)
		}
		return strconv.FormatInt(i, 10)
	}
	return "?float"
}

// printer emits terms with sharing: every compound term above a small size is
// bound by a define-fun in the solver so that DAGs stay linear.
type printer struct {
	names map[*Term]string
	n     int
	defs  []string // pending definitions to send
}

func newPrinter() *printer { return &printer{names: map[*Term]string{}} }

func (p *printer) ref(t *Term) string {
	if t.Const {
		return constSMT(t)
	}
	if t.Op == "" {
		return t.Name
	}
	if nm, ok := p.names[t]; ok {
		return nm
	}
	if t.Op == "like" {
		// (like s e1 .. en) with Par[i] = 0 literal / 1 any one character / 2 any string
		var parts []string
		for i, k := range t.Par {
			switch k {
			case 1:
				parts = append(parts, "re.allchar")
			case 2:
				parts = append(parts, "(re.* re.allchar)")
			default:
				parts = append(parts, "(str.to_re "+p.ref(t.Args[i+1])+")")
			}
		}
		for len(parts) < 2 {
			parts = append(parts, "(str.to_re \"\")")
		}
		s := "(str.in_re " + p.ref(t.Args[0]) + " (re.++ " + strings.Join(parts, " ") + "))"
		p.n++
		nm := fmt.Sprintf("t!%d", p.n)
		p.names[t] = nm
		p.defs = append(p.defs, fmt.Sprintf("(define-fun %s () Bool %s)", nm, s))
		return nm
	}
	var b strings.Builder
	b.WriteByte('(')
	switch t.Op {
	case "extract":
		fmt.Fprintf(&b, "(_ extract %d %d)", t.Par[0], t.Par[1])
	case "zero_extend", "sign_extend":
		fmt.Fprintf(&b, "(_ %s %d)", t.Op, t.Par[0])
	case "int2bv":
		fmt.Fprintf(&b, "(_ int2bv %d)", t.Par[0])
	default:
		b.WriteString(t.Op)
	}
	for _, a := range t.Args {
		b.WriteByte(' ')
		b.WriteString(p.ref(a))
	}
	b.WriteByte(')')
	s := b.String()
	if t.size <= 6 {
		return s
	}
	p.n++
	nm := fmt.Sprintf("t!%d", p.n)
	p.names[t] = nm
	p.defs = append(p.defs, fmt.Sprintf("(define-fun %s () %s %s)", nm, t.Sort.SMT(), s))
	return nm
}

// String renders a term for humans (no sharing; truncated).
func (t *Term) String() string {
	var b strings.Builder
	t.str(&b, 0)
	return b.String()
}
func (t *Term) str(b *strings.Builder, depth int) {
	if b.Len() > 400 {
		b.WriteString("…")
		return
	}
	if t.Const {
		switch t.Sort.K {
		case KBV:
			if t.Sort.W == 64 && t.U > 1<<62 {
				fmt.Fprintf(b, "%d", int64(t.U))
			} else {
				fmt.Fprintf(b, "%d", t.U)
			}
		case KFloat:
			fmt.Fprintf(b, "%g", t.F)
		default:
			b.WriteString(constSMT(t))
		}
		return
	}
	if t.Op == "" {
		b.WriteString(t.Name)
		return
	}
	b.WriteByte('(')
	b.WriteString(t.Op)
	for _, a := range t.Args {
		b.WriteByte(' ')
		a.str(b, depth+1)
	}
	b.WriteByte(')')
}

var _ = bits.Len64

// likeMatch: pattern elements (kind 0 literal string, 1 any one character, 2 any string)
// against a concrete string.
func likeMatch(kinds []int, lits []string, s string) bool {
	if len(kinds) == 0 {
		return s == ""
	}
	switch kinds[0] {
	case 2:
		for i := 0; i <= len(s); i++ {
			if likeMatch(kinds[1:], lits[1:], s[i:]) {
				return true
			}
		}
		return false
	case 1:
		return len(s) > 0 && likeMatch(kinds[1:], lits[1:], s[1:])
	}
	return strings.HasPrefix(s, lits[0]) && likeMatch(kinds[1:], lits[1:], s[len(lits[0]):])
}

// tLike builds the membership term; folds when everything is concrete.
func tLike(s *Term, kinds []int, lits []*Term) *Term {
	allConst := s.Const
	for i, k := range kinds {
		if k == 0 && !lits[i].Const {
			allConst = false
		}
	}
	if allConst {
		ls := make([]string, len(lits))
		for i, l := range lits {
			ls[i] = l.S
		}
		return mkBool(likeMatch(kinds, ls, s.S))
	}
	t := mkApp(SBool, "like", append([]*Term{s}, lits...)...)
	t.Par = append([]int{}, kinds...)
	return t
}
