package main

// Second batch of intrinsics: regexp on concrete strings, strconv.ParseInt,
// json.Encoder, merr errors, and the sink observation used by C18
// (non-interference of secrets with log / response sinks).

import (
	"fmt"
	"go/types"
	"reflect"
	"regexp"
	"strconv"
	"strings"

	"golang.org/x/tools/go/ssa"
)

type rxKey struct{ p *Value }
type encKey struct{ p *Value }

// sinkObs is one observed call of a logging sink.
type sinkObs struct {
	fn   string
	args []Value
}

func (e *Engine) registerIntrinsics2() {
	in := e.intrinsics
	if e.cfg != nil && e.cfg.RealContext {
		delete(in, "context.WithCancel")
	}

	// ---------------- regexp (concrete subject strings only) ----------------
	in["regexp.MustCompile"] = func(c *PathCtx, fr *frame, args []Value) Value {
		pat := strArg(args[0])
		rx, err := regexp.Compile(pat)
		if err != nil {
			panic(targetPanic{msg: "regexp: Compile: " + err.Error()})
		}
		p := new(Value)
		*p = Opaque{}
		c.side[rxKey{p}] = rx
		return p
	}
	rxOf := func(c *PathCtx, v Value) *regexp.Regexp {
		p, _ := v.(*Value)
		if rx, ok := c.side[rxKey{p}].(*regexp.Regexp); ok {
			return rx
		}
		panic(inconclusive("regexp object not created by regexp.MustCompile under the executor"))
	}
	concStr := func(what string, v Value) string {
		t := v.(*Term)
		if !t.Const {
			panic(inconclusive("%s on a symbolic string", what))
		}
		return t.S
	}
	in["(*regexp.Regexp).MatchString"] = func(c *PathCtx, fr *frame, args []Value) Value {
		return mkBool(rxOf(c, args[0]).MatchString(concStr("regexp.MatchString", args[1])))
	}
	in["(*regexp.Regexp).FindStringSubmatch"] = func(c *PathCtx, fr *frame, args []Value) Value {
		m := rxOf(c, args[0]).FindStringSubmatch(concStr("regexp.FindStringSubmatch", args[1]))
		if m == nil {
			return []Value(nil)
		}
		out := make([]Value, len(m))
		for i, s := range m {
			out[i] = mkStr(s)
		}
		return out
	}
	in["(*regexp.Regexp).SubexpIndex"] = func(c *PathCtx, fr *frame, args []Value) Value {
		return mkBV(64, uint64(int64(rxOf(c, args[0]).SubexpIndex(concStr("regexp.SubexpIndex", args[1])))))
	}

	// ---------------- strconv.ParseInt (concrete) ----------------
	in["strconv.ParseInt"] = func(c *PathCtx, fr *frame, args []Value) Value {
		s := concStr("strconv.ParseInt", args[0])
		base, bits := args[1].(*Term), args[2].(*Term)
		if !base.Const || !bits.Const {
			panic(inconclusive("strconv.ParseInt with symbolic base/bitSize"))
		}
		v, err := strconv.ParseInt(s, int(base.Int64()), int(bits.Int64()))
		if err != nil {
			return Tuple{mkBV(64, uint64(v)), c.newError(mkStr(err.Error()), nil)}
		}
		return Tuple{mkBV(64, uint64(v)), Iface{}}
	}
	in["strconv.Atoi"] = func(c *PathCtx, fr *frame, args []Value) Value {
		s := concStr("strconv.Atoi", args[0])
		v, err := strconv.Atoi(s)
		if err != nil {
			return Tuple{mkBV(64, uint64(int64(v))), c.newError(mkStr(err.Error()), nil)}
		}
		return Tuple{mkBV(64, uint64(int64(v))), Iface{}}
	}

	// ---------------- milvus merr: only as "an error with an opaque message" -------------
	for _, n := range []string{"WrapErrParameterInvalidMsg", "WrapErrParameterInvalid", "WrapErrServiceInternal", "WrapErrCollectionNotFound", "WrapErrChannelNotFound"} {
		in["github.com/milvus-io/milvus/pkg/util/merr."+n] = func(c *PathCtx, fr *frame, args []Value) Value {
			return c.newError(mkStr("<merr error>"), nil)
		}
	}

	// time.NewTicker / NewTimer: the scenarios are over long before any period; the channel
	// never fires
	tickerOf := func(c *PathCtx, fr *frame) Value {
		pt := fr.fn.Signature.Results().At(0).Type().Underlying().(*types.Pointer)
		p := new(Value)
		*p = zero(pt.Elem())
		return p
	}
	in["time.NewTicker"] = func(c *PathCtx, fr *frame, args []Value) Value { return tickerOf(c, fr) }
	in["time.NewTimer"] = func(c *PathCtx, fr *frame, args []Value) Value { return tickerOf(c, fr) }
	in["(*time.Ticker).Stop"] = func(c *PathCtx, fr *frame, args []Value) Value { return nil }
	in["(*time.Ticker).Reset"] = func(c *PathCtx, fr *frame, args []Value) Value { return nil }
	in["(*time.Timer).Stop"] = func(c *PathCtx, fr *frame, args []Value) Value { return tFalse }
	in["(time.Duration).Milliseconds"] = func(c *PathCtx, fr *frame, args []Value) Value {
		return tBV2("bvsdiv", args[0].(*Term), mkBV(64, 1000000))
	}
	in["(time.Duration).Seconds"] = func(c *PathCtx, fr *frame, args []Value) Value { return mkFloat(0) }
	// http.HandlerFunc.ServeHTTP is f(w, r)
	in["(net/http.HandlerFunc).ServeHTTP"] = func(c *PathCtx, fr *frame, args []Value) Value {
		c.call(fr, 0, args[0], []Value{args[1], args[2]}, nil)
		return nil
	}
	in["bytes.Equal"] = func(c *PathCtx, fr *frame, args []Value) Value {
		a, _ := args[0].([]Value)
		b, _ := args[1].([]Value)
		if len(a) != len(b) {
			return tFalse
		}
		r := tTrue
		for i := range a {
			r = tAnd(r, tEq(a[i].(*Term), b[i].(*Term)))
		}
		return r
	}

	// context.WithValue: the standard constructor minus its reflection-based key check
	in["context.WithValue"] = func(c *PathCtx, fr *frame, args []Value) Value {
		var vt types.Type
		for _, p := range c.eng.prog.AllPackages() {
			if p.Pkg.Path() == "context" {
				vt = types.NewPointer(p.Type("valueCtx").Type())
			}
		}
		if vt == nil {
			panic(engineErr("package context not loaded"))
		}
		if pi, ok := args[0].(Iface); !ok || pi.T == nil {
			panic(targetPanic{msg: "cannot create context from nil parent"})
		}
		cell := new(Value)
		*cell = Struct{args[0], args[1], args[2]}
		return Iface{T: vt, V: cell}
	}

	// proto.Marshal / Unmarshal: the wire format is not modelled; Marshal returns an opaque
	// handle ("pb#n") of a deep snapshot, Unmarshal restores the snapshot into a message of
	// the same type and fails on any other bytes (tombstones, garbage). Checks that need
	// more (C07) redirect Marshal themselves.
	pbReg := func(c *PathCtx) *[]Value {
		if r, ok := c.side["pbreg"]; ok {
			return r.(*[]Value)
		}
		r := &[]Value{}
		c.side["pbreg"] = r
		return r
	}
	pbMarshal := func(c *PathCtx, fr *frame, args []Value) Value {
		reg := pbReg(c)
		*reg = append(*reg, deepCopy(args[0], map[*Value]*Value{}))
		h := fmt.Sprintf("pb#%d", len(*reg))
		out := make([]Value, len(h))
		for i := 0; i < len(h); i++ {
			out[i] = mkBV(8, uint64(h[i]))
		}
		return Tuple{out, Iface{}}
	}
	pbUnmarshal := func(c *PathCtx, fr *frame, args []Value) Value {
		data, _ := args[0].([]Value)
		bs := make([]byte, len(data))
		for i, e := range data {
			et := e.(*Term)
			if !et.Const {
				panic(inconclusive("proto.Unmarshal of symbolic bytes"))
			}
			bs[i] = byte(et.U)
		}
		var n int
		reg := pbReg(c)
		if _, err := fmt.Sscanf(string(bs), "pb#%d", &n); err != nil || n < 1 || n > len(*reg) {
			return c.newError(mkStr("proto: cannot parse invalid wire-format data"), nil)
		}
		src := (*reg)[n-1].(Iface)
		dst := args[1].(Iface)
		if dst.T == nil || !types.Identical(src.T, dst.T) {
			return c.newError(mkStr("proto: message type mismatch"), nil)
		}
		dp, _ := dst.V.(*Value)
		sp, _ := deepCopy(src, map[*Value]*Value{}).(Iface).V.(*Value)
		if dp == nil || sp == nil {
			return c.newError(mkStr("proto: nil message"), nil)
		}
		*dp = *sp
		return Iface{}
	}
	for _, p := range []string{"google.golang.org/protobuf/proto", "github.com/golang/protobuf/proto"} {
		if _, taken := in[p+".Marshal"]; !taken {
			in[p+".Marshal"] = pbMarshal
		}
		in[p+".Unmarshal"] = pbUnmarshal
	}

	// conc.Pool (milvus): Submit runs the function on another goroutine; the future is
	// an opaque value (the repo ignores it)
	concPkg := "github.com/milvus-io/milvus/pkg/util/conc"
	in[concPkg+".NewPool"] = func(c *PathCtx, fr *frame, args []Value) Value {
		p := new(Value)
		*p = Opaque{}
		return p
	}
	in[concPkg+".WithExpiryDuration"] = func(c *PathCtx, fr *frame, args []Value) Value { return (*ssa.Function)(nil) }
	in["(*"+concPkg+".Pool[T]).Submit"] = func(c *PathCtx, fr *frame, args []Value) Value {
		fn := args[1]
		g := c.spawn("pool.Submit", func() { c.call(nil, 0, fn, nil, nil) })
		_ = g
		p := new(Value)
		*p = Opaque{}
		return p
	}

	// proto.Size: an opaque small size (only compared with the batcher's thresholds)
	in["google.golang.org/protobuf/proto.Size"] = func(c *PathCtx, fr *frame, args []Value) Value {
		// a size estimate that grows with the payload: 16 + 6 bytes per scalar leaf (elements of
		// repeated fields included). Harnesses that compare sizes with thresholds keep their
		// messages far from the threshold on either side.
		n := 0
		seen := map[*Value]bool{}
		var walk func(v Value, d int)
		walk = func(v Value, d int) {
			if d > 12 {
				return
			}
			switch x := v.(type) {
			case *Term:
				n++
			case Iface:
				walk(x.V, d+1)
			case *Value:
				if x != nil && !seen[x] {
					seen[x] = true
					walk(*x, d+1)
				}
			case Struct:
				for _, f := range x {
					walk(f, d+1)
				}
			case Array:
				for _, f := range x {
					walk(f, d+1)
				}
			case []Value:
				for _, f := range x {
					walk(f, d+1)
				}
			case *Map:
				if x != nil {
					for i := range x.keys {
						walk(x.keys[i], d+1)
						walk(x.vals[i], d+1)
					}
				}
			}
		}
		walk(args[0], 0)
		return mkBV(64, uint64(16+6*n))
	}

	// ---------------- encoding/json Encoder (same opaque snapshot as Marshal) ----------------
	newEncoder := func(c *PathCtx, fr *frame, args []Value) Value {
		p := new(Value)
		*p = Opaque{}
		c.side[encKey{p}] = args[0].(Iface)
		return p
	}
	encode := func(c *PathCtx, fr *frame, args []Value) Value {
		p, _ := args[0].(*Value)
		w, ok := c.side[encKey{p}].(Iface)
		if !ok {
			panic(inconclusive("json.Encoder not created under the executor"))
		}
		mr := e.intrinsics["encoding/json.Marshal"](c, fr, []Value{args[1]}).(Tuple)
		data := append(append([]Value{}, mr[0].([]Value)...), mkBV(8, '\n'))
		if w.T == nil {
			panic(targetPanic{msg: "nil io.Writer in json.Encoder"})
		}
		m := c.eng.lookupMethod(w.T, "Write")
		if m == nil {
			panic(engineErr("json.Encoder: %v has no Write", w.T))
		}
		c.callSSA(fr, 0, m, []Value{w.V, data}, nil)
		return Iface{}
	}
	for _, p := range []string{"encoding/json", "github.com/goccy/go-json"} {
		in[p+".NewEncoder"] = newEncoder
		in["(*"+p+".Encoder).Encode"] = encode
	}

	// ---------------- C18: what reached a logging sink, and does it depend on a secret ----------
	// vLogMark(): start observing (natively: remember the size of the log file).
	rtIntrinsics["vLogMark"] = func(c *PathCtx, fr *frame, args []Value) Value {
		c.side["sinkobs"] = &[]sinkObs{}
		return nil
	}
	// vLogLeaks(secret string) bool: some value handed to a logging sink since the mark
	// depends on the symbolic secret (decided by the solver: two runs that differ only in
	// the secret produce different sink values).
	rtIntrinsics["vLogLeaks"] = func(c *PathCtx, fr *frame, args []Value) Value {
		secret := args[0].(*Term)
		obs, _ := c.side["sinkobs"].(*[]sinkObs)
		if obs == nil {
			return tFalse
		}
		for _, o := range *obs {
			for _, a := range o.args {
				if where, leak := c.valueDependsOn(a, nil, secret); leak {
					c.res.Reached["leak-site:"+o.fn+":"+where]++
					return tTrue
				}
			}
		}
		return tFalse
	}
	// vLeaks(v any, secret string) bool: the (JSON-visible part of the) value depends on the secret.
	rtIntrinsics["vLeaks"] = func(c *PathCtx, fr *frame, args []Value) Value {
		secret := args[1].(*Term)
		where, leak := c.valueDependsOn(args[0], nil, secret)
		if leak {
			c.res.Reached["leak-site:response:"+where]++
		}
		return mkBool(leak)
	}
}

// observeSink records the arguments of a logging sink call (C18).
func (c *PathCtx) observeSink(name string, args []Value) {
	obs, _ := c.side["sinkobs"].(*[]sinkObs)
	if obs == nil || c.lenient > 0 {
		return
	}
	cp := make([]Value, len(args))
	memo := map[*Value]*Value{}
	for i, a := range args {
		cp[i] = deepCopy(a, memo) // snapshot at call time (later masking must not hide it)
	}
	*obs = append(*obs, sinkObs{name, cp})
}

func isLogSinkPkg(path string) bool {
	for _, p := range []string{"github.com/zilliztech/milvus-cdc/core/log", "go.uber.org/zap", "github.com/milvus-io/milvus/pkg/log", "log"} {
		if path == p || strings.HasPrefix(path, p+"/") {
			return true
		}
	}
	return false
}

// ---------- dependence of a value graph on a secret ----------

func termMentions(t *Term, v *Term, memo map[*Term]bool) bool {
	if t == v {
		return true
	}
	if t.Const || t.Op == "" {
		return t.Op == "" && !t.Const && t.Name == v.Name
	}
	if r, ok := memo[t]; ok {
		return r
	}
	r := false
	for _, a := range t.Args {
		if termMentions(a, v, memo) {
			r = true
			break
		}
	}
	memo[t] = r
	return r
}

func termSubst(t *Term, from, to *Term, memo map[*Term]*Term) *Term {
	if t.Const {
		return t
	}
	if t.Op == "" {
		if t.Name == from.Name {
			return to
		}
		return t
	}
	if r, ok := memo[t]; ok {
		return r
	}
	args := make([]*Term, len(t.Args))
	changed := false
	for i, a := range t.Args {
		args[i] = termSubst(a, from, to, memo)
		if args[i] != a {
			changed = true
		}
	}
	r := t
	if changed {
		r = &Term{Sort: t.Sort, Op: t.Op, Args: args, Par: t.Par, size: t.size}
	}
	memo[t] = r
	return r
}

// secretTwin returns the renamed copy s' of the secret variable together with the path
// condition conjuncts that mention s, rewritten for s' (self-composition).
func (c *PathCtx) secretTwin(secret *Term) (*Term, []*Term) {
	key := "twin:" + secret.Name
	var twin *Term
	if t, ok := c.side[key].(*Term); ok {
		twin = t
	} else {
		name := strings.Trim(secret.Name, "|") + "'twin"
		twin = mkVar(secret.Sort, "|"+name+"|")
		c.solver.send(fmt.Sprintf("(declare-const |%s| %s)", name, secret.Sort.SMT()))
		c.side[key] = twin
	}
	var conj []*Term
	mm := map[*Term]bool{}
	sm := map[*Term]*Term{}
	for _, pc := range c.pcs {
		if termMentions(pc, secret, mm) {
			conj = append(conj, termSubst(pc, secret, twin, sm))
		}
	}
	return twin, conj
}

// termLeaks: can two executions that agree on everything but the secret produce
// different values of t?  (pathcond(s) ∧ pathcond(s') ∧ t(s) ≠ t(s'))
func (c *PathCtx) termLeaks(t *Term, secret *Term) bool {
	if t.Const || !termMentions(t, secret, map[*Term]bool{}) {
		return false
	}
	twin, conj := c.secretTwin(secret)
	t2 := termSubst(t, secret, twin, map[*Term]*Term{})
	extra := append(conj, tNot(tEq(t, t2)))
	c.deciding = true
	r := c.checkSat(extra...)
	c.deciding = false
	switch r {
	case "unsat":
		return false
	case "sat":
		return true
	}
	panic(inconclusive("secret-dependence query: solver answered %s", r))
}

// valueDependsOn walks the JSON-visible part of a value graph (exported fields
// whose json tag is not "-"; everything of maps, slices, pointers, interfaces and
// error messages) and reports the first scalar that depends on the secret.
func (c *PathCtx) valueDependsOn(v Value, t types.Type, secret *Term) (string, bool) {
	seen := map[*Value]bool{}
	var walk func(v Value, t types.Type, path string, depth int) (string, bool)
	walk = func(v Value, t types.Type, path string, depth int) (string, bool) {
		if depth > 24 {
			return "", false
		}
		switch x := v.(type) {
		case *Term:
			if c.termLeaks(x, secret) {
				return path, true
			}
			// the text produced by json.Marshal is an opaque handle of a snapshot: what the
			// text shows is the snapshot
			if x.Const && x.Sort.K == KStr && strings.HasPrefix(x.S, "json#") {
				var n int
				if _, err := fmt.Sscanf(x.S, "json#%d", &n); err == nil {
					if reg, ok := c.side["jsonreg"].(*[]Value); ok && n >= 1 && n <= len(*reg) {
						return walk((*reg)[n-1], nil, path+".json", depth+1)
					}
				}
			}
		case Iface:
			if x.T == nil {
				return "", false
			}
			return walk(x.V, x.T, path, depth+1)
		case *Value:
			if x == nil || seen[x] {
				return "", false
			}
			seen[x] = true
			var et types.Type
			if t != nil {
				if pt, ok := t.Underlying().(*types.Pointer); ok {
					et = pt.Elem()
				}
			}
			if w, ok := c.side[x]; ok { // wrapped error
				if wi, ok := w.(Iface); ok {
					if p, leak := walk(wi, nil, path+".unwrap", depth+1); leak {
						return p, true
					}
				}
			}
			return walk(*x, et, path, depth+1)
		case Struct:
			var st *types.Struct
			if t != nil {
				st, _ = t.Underlying().(*types.Struct)
			}
			for i, f := range x {
				name := fmt.Sprintf("#%d", i)
				var ft types.Type
				if st != nil && i < st.NumFields() {
					fld := st.Field(i)
					isErrMsg := !fld.Exported() && isString(fld.Type()) // errors.errorString{s}, ClientError{msg}
					if !fld.Exported() && !isErrMsg {
						continue
					}
					if tag := reflect.StructTag(st.Tag(i)).Get("json"); tag == "-" {
						continue
					}
					name, ft = fld.Name(), fld.Type()
				}
				if p, leak := walk(f, ft, path+"."+name, depth+1); leak {
					return p, true
				}
			}
		case Array:
			var et types.Type
			if t != nil {
				if at, ok := t.Underlying().(*types.Array); ok {
					et = at.Elem()
				}
			}
			for i, f := range x {
				if p, leak := walk(f, et, fmt.Sprintf("%s[%d]", path, i), depth+1); leak {
					return p, true
				}
			}
		case []Value:
			var et types.Type
			if t != nil {
				if sl, ok := t.Underlying().(*types.Slice); ok {
					et = sl.Elem()
				}
			}
			for i, f := range x {
				if p, leak := walk(f, et, fmt.Sprintf("%s[%d]", path, i), depth+1); leak {
					return p, true
				}
			}
		case Tuple:
			for i, f := range x {
				if p, leak := walk(f, nil, fmt.Sprintf("%s(%d)", path, i), depth+1); leak {
					return p, true
				}
			}
		case *Map:
			if x == nil {
				return "", false
			}
			for i := range x.keys {
				if p, leak := walk(x.keys[i], x.kt, path+".key", depth+1); leak {
					return p, true
				}
				if p, leak := walk(x.vals[i], x.vt, path+".val", depth+1); leak {
					return p, true
				}
			}
		}
		return "", false
	}
	return walk(v, t, "", 0)
}

var _ *ssa.Function
