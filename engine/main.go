package main

import (
	"context"
	"encoding/json"
	"flag"
	"fmt"
	"os"
	"os/exec"
	"path/filepath"
	"sort"
	"strconv"
	"strings"
	"sync/atomic"
	"time"
)

type KnownFinding struct {
	Property string `json:"property"`
	ID       string `json:"id"`
	Assert   string `json:"assert"`
	What     string `json:"what"`
	Status   string `json:"status"` // "open" | "fixed"
	Commit   string `json:"commit,omitempty"`
}

type knownFile struct {
	Findings []KnownFinding `json:"findings"`
}

func (e *Engine) knownActive(assertID, kfID string) bool {
	for _, k := range e.known {
		if k.ID == kfID && k.Status == "open" && k.Property == e.cfg.Property && (k.Assert == "" || k.Assert == assertID) {
			return true
		}
	}
	return false
}

var evidenceDir, solverOverride, crossOverride string

func main() {
	verifRoot := flag.String("verif", "/verif", "verification root")
	repoRoot := flag.String("repo", "/repo", "repository root")
	replay := flag.String("replay", "", "replay a counterexample file natively")
	only := flag.String("entry", "", "run only this entry")
	noReplay := flag.Bool("no-native-replay", false, "do not run native replays (debug)")
	verbose := flag.Bool("v", false, "verbose")
	flag.StringVar(&solverOverride, "solver", "", "override the solver of the check config (z3 | z3-new | cvc5)")
	flag.StringVar(&crossOverride, "cross", "", "cross-check solver (z3 | z3-new | cvc5 | none); default: thorough tier re-asks a second solver, quick tier does not")
	flag.StringVar(&evidenceDir, "evidence-dir", "", "write the evidence file here instead of <verif>/evidence (used when checking a scratch tree)")
	flag.Parse()
	if *replay != "" {
		os.Exit(replayFile(*verifRoot, *repoRoot, *replay))
	}
	if flag.NArg() < 1 {
		fmt.Fprintln(os.Stderr, "usage: symgo [flags] <PROPERTY-ID> [quick|thorough]")
		os.Exit(2)
	}
	id := flag.Arg(0)
	tier := "quick"
	if flag.NArg() > 1 {
		tier = flag.Arg(1)
	}
	if t := os.Getenv("VERIF_TIER"); t != "" && flag.NArg() < 2 {
		tier = t
	}
	seed := int64(0)
	if s := os.Getenv("VERIF_SEED"); s != "" {
		seed, _ = strconv.ParseInt(s, 10, 64)
	}
	os.Exit(runCheck(*verifRoot, *repoRoot, id, tier, seed, *only, *noReplay, *verbose))
}

func loadCfg(verifRoot, id string) (*CheckCfg, error) {
	b, err := os.ReadFile(filepath.Join(verifRoot, "checks", id+".json"))
	if err != nil {
		return nil, err
	}
	cfg := &CheckCfg{}
	if err := json.Unmarshal(b, cfg); err != nil {
		return nil, err
	}
	if solverOverride != "" {
		cfg.Solver = solverOverride
	}
	if cfg.Solver == "" {
		cfg.Solver = "z3"
	}
	if cfg.MaxSteps == 0 {
		cfg.MaxSteps = 3_000_000
	}
	if cfg.MaxSymDecisions == 0 {
		cfg.MaxSymDecisions = 400
	}
	if cfg.MaxPaths == 0 {
		cfg.MaxPaths = 200000
	}
	if cfg.QueryTimeoutMs == 0 {
		cfg.QueryTimeoutMs = 20000
	}
	return cfg, nil
}

func runCheck(verifRoot, repoRoot, id, tier string, seed int64, only string, noReplay, verbose bool) int {
	t0 := time.Now()
	cfg, err := loadCfg(verifRoot, id)
	if err != nil {
		fmt.Fprintln(os.Stderr, "config:", err)
		return 2
	}
	if len(cfg.Parts) > 0 {
		return runParts(verifRoot, repoRoot, id, cfg, tier, only, noReplay, verbose)
	}
	if tier == "thorough" && cfg.QueryTimeoutMs < 60000 {
		cfg.QueryTimeoutMs = 60000
	}
	if crossOverride != "" {
		cfg.CrossSolver = crossOverride
	}
	if cfg.CrossSolver == "" && tier == "thorough" {
		// thorough tier: every deciding unsat is re-asked of a second solver
		switch cfg.Solver {
		case "z3":
			cfg.CrossSolver = "z3-new"
		default:
			cfg.CrossSolver = "z3"
		}
	}
	e := &Engine{cfg: cfg, tier: tier, seed: seed, verifRoot: verifRoot, repoRoot: repoRoot,
		funcsSeen: map[string]int{}}
	if b, err := os.ReadFile(filepath.Join(verifRoot, "known_findings.json")); err == nil {
		var kf knownFile
		if err := json.Unmarshal(b, &kf); err != nil {
			fmt.Fprintln(os.Stderr, "known_findings.json:", err)
			return 2
		}
		e.known = kf.Findings
	}
	e.registerIntrinsics()
	e.registerIntrinsics2()
	defer os.RemoveAll(filepath.Join(verifRoot, ".work", fmt.Sprintf("%s-%d", cfg.Property, os.Getpid())))
	if err := e.load(); err != nil {
		fmt.Fprintln(os.Stderr, "load:", err)
		e.writeEvidence(nil, tier, seed, time.Since(t0).Seconds(), []string{"load failed: " + err.Error()}, 0)
		return 2
	}
	fmt.Printf("[%s/%s] loaded %s %s in %.1fs (solver %s)\n", id, tier, cfg.Module, cfg.Package, e.loadSecs, cfg.Solver)

	budget := 150 * time.Minute
	if tier == "quick" {
		budget = 20 * time.Minute
	}
	deadline := time.Now().Add(budget)
	var results []*EntryResult
	for _, ent := range cfg.Entries {
		if only != "" && ent.Func != only {
			continue
		}
		if len(ent.Tiers) > 0 {
			ok := false
			for _, t := range ent.Tiers {
				if t == tier {
					ok = true
				}
			}
			if !ok {
				continue
			}
		}
		r := e.explore(ent, deadline)
		results = append(results, r)
		fmt.Printf("[%s/%s] %s: paths=%d ok=%d infeasible=%d crash=%d forks=%d obligations=%d discharged=%d violations=%d known=%v unknown-queries=%d %.1fs\n",
			id, tier, ent.Func, r.Paths, r.OkPaths, r.Infeasible, r.CrashPaths, r.Forks, r.Obligations, r.Discharged, len(r.Violations), r.KnownSeen, r.Unknowns, r.Secs)
		for _, inc := range r.Inconclusive {
			fmt.Printf("[%s/%s] %s: INCONCLUSIVE %s\n", id, tier, ent.Func, firstLines(inc, 12))
		}
		if verbose {
			for m, n := range r.CrashMsgs {
				fmt.Printf("   crash x%d: %s\n", n, m)
			}
		}
	}

	// ---- verdict ----
	exit := 0
	var problems []string
	violN := 0
	replayDir := filepath.Join(verifRoot, "replays")
	os.MkdirAll(replayDir, 0o755)
	knownPrinted := map[string]bool{}
	for _, r := range results {
		for _, inc := range r.Inconclusive {
			problems = append(problems, r.Entry.Func+": "+firstLines(inc, 3))
		}
		// vacuity: every entry must reach its end marker and every assert site
		if r.Reached["end"] == 0 && len(r.Violations) == 0 && len(r.Inconclusive) == 0 {
			problems = append(problems, r.Entry.Func+": vacuous (vReach(\"end\") never reached)")
		}
		for k := range r.KnownSeen {
			if !knownPrinted[k] {
				knownPrinted[k] = true
				for _, kf := range e.known {
					if kf.ID == k {
						fmt.Printf("KNOWN-FINDING: property=%s %s: %s\n", cfg.Property, kf.ID, kf.What)
					}
				}
			}
		}
		// de-duplicate violations per assertion id: replay the first few
		byID := map[string][]*Violation{}
		var ids []string
		for _, v := range r.Violations {
			if len(byID[v.AssertID]) == 0 {
				ids = append(ids, v.AssertID)
			}
			byID[v.AssertID] = append(byID[v.AssertID], v)
		}
		sort.Strings(ids)
		for _, aid := range ids {
			vs := byID[aid]
			confirmed := false
			tries := 0
			for _, v := range vs {
				if tries >= 3 {
					break
				}
				tries++
				violN++
				path := filepath.Join(replayDir, fmt.Sprintf("%s-%s-%d.json", id, sanitize(aid), violN))
				rf := map[string]interface{}{
					"property": id, "entry": r.Entry.Func, "assert": v.AssertID, "kind": v.Kind,
					"values": v.Model, "choices": v.Choices, "decisions": v.Decisions, "detail": v.Detail,
					"params": e.effectiveParams(r.Entry), "check": id, "tier": tier,
				}
				writeJSON(path, rf)
				if noReplay {
					fmt.Printf("VIOLATION property=%s replay=%s (assert %s, %d paths; native replay skipped)\n", cfg.Property, path, aid, len(vs))
					exit = 1
					confirmed = true
					break
				}
				ok, out := e.nativeReplay(path, r.Entry, v)
				if ok {
					fmt.Printf("VIOLATION property=%s replay=%s\n", cfg.Property, path)
					fmt.Printf("  assertion %s fails on %d explored path(s); witness reproduced natively: %s\n", aid, len(vs), summarizeModel(v.Model))
					exit = 1
					confirmed = true
					break
				}
				if verbose {
					fmt.Printf("  replay of %s did not reproduce:\n%s\n", path, out)
				}
			}
			if !confirmed {
				problems = append(problems, fmt.Sprintf("%s: counterexample for %s did not reproduce natively (SPURIOUS: encoding or schedule not replayable)", r.Entry.Func, aid))
			}
		}
	}
	validated := 0
	if exit == 0 && len(problems) == 0 && !noReplay {
		var bad []string
		validated, bad = e.validateSamples(results)
		for _, b := range bad {
			problems = append(problems, "native replay of a passing-path sample disagrees with the encoding: "+b)
		}
		fmt.Printf("[%s/%s] native validation: %d sampled passing-path models replayed against the real build, %d disagreements\n", id, tier, validated, len(bad))
	}
	wall := time.Since(t0).Seconds()
	e.writeEvidence(results, tier, seed, wall, problems, violN+validated)
	if exit == 1 {
		return 1
	}
	if len(problems) > 0 {
		for _, p := range problems {
			fmt.Printf("INCONCLUSIVE property=%s %s\n", cfg.Property, p)
		}
		return 2
	}
	tot, dis := 0, 0
	for _, r := range results {
		tot += r.Obligations
		dis += r.Discharged
	}
	if cfg.CrossSolver != "" && cfg.CrossSolver != "none" {
		fmt.Printf("[%s/%s] cross-solver check (%s): %d deciding unsat answers re-asked, %d agree, %d unknown, %d disagree (%.1fs)\n",
			id, tier, cfg.CrossSolver, atomic.LoadInt64(&crossAsked), atomic.LoadInt64(&crossAgree), atomic.LoadInt64(&crossUnknown), atomic.LoadInt64(&crossDisagree), float64(atomic.LoadInt64(&crossNanos))/1e9)
	}
	fmt.Printf("[%s/%s] HELD within bounds: %d/%d obligations discharged, solver queries=%d (%.1fs solver time), wall %.1fs\n",
		id, tier, dis, tot, atomic.LoadInt64(&solverQueries), float64(atomic.LoadInt64(&solverNanos))/1e9, wall)
	return 0
}

func (e *Engine) effectiveParams(ent *EntryCfg) map[string]int {
	m := map[string]int{}
	for k, v := range ent.Params {
		m[k] = v
	}
	if e.tier == "thorough" {
		for k, v := range ent.ThoroughParams {
			m[k] = v
		}
	}
	return m
}

func summarizeModel(m map[string]interface{}) string {
	var ks []string
	for k := range m {
		ks = append(ks, k)
	}
	sort.Strings(ks)
	var parts []string
	for _, k := range ks {
		parts = append(parts, fmt.Sprintf("%s=%v", k, m[k]))
		if len(parts) > 24 {
			parts = append(parts, "…")
			break
		}
	}
	return strings.Join(parts, " ")
}

func sanitize(s string) string {
	var b strings.Builder
	for _, r := range s {
		if (r >= 'a' && r <= 'z') || (r >= 'A' && r <= 'Z') || (r >= '0' && r <= '9') || r == '-' || r == '_' || r == '.' {
			b.WriteRune(r)
		} else {
			b.WriteByte('_')
		}
	}
	return b.String()
}

func lastLines(s string, n int) string {
	ls := strings.Split(strings.TrimRight(s, "\n"), "\n")
	if len(ls) > n {
		ls = ls[len(ls)-n:]
	}
	return strings.Join(ls, "\n")
}

func firstLines(s string, n int) string {
	ls := strings.Split(s, "\n")
	if len(ls) > n {
		ls = ls[:n]
	}
	return strings.Join(ls, "\n")
}

// ---------- native replay ----------

func (e *Engine) replayTestSource(pkgName string) string {
	var b strings.Builder
	nr := e.nativeRedir
	b.WriteString("//go:build verif\n\npackage " + pkgName + "\n\nimport (\n\t\"fmt\"\n\t\"os\"\n\t\"path/filepath\"\n\t\"testing\"\n")
	if nr != nil {
		for ip, alias := range nr.imports {
			fmt.Fprintf(&b, "\t%s %q\n", alias, ip)
		}
	}
	b.WriteString(")\n\n")
	if nr != nil && nr.initSrc != "" {
		b.WriteString("func init() {\n" + nr.initSrc + "}\n\n")
	}
	b.WriteString("func TestVerifReplay(t *testing.T) {\n\tentries := map[string]func(){\n")
	for _, ent := range e.cfg.Entries {
		fmt.Fprintf(&b, "\t\t%q: %s,\n", ent.Func, ent.Func)
	}
	b.WriteString("\t}\n\tr := vLoad()\n\tf, ok := entries[r.Entry]\n\tif !ok {\n\t\tt.Fatalf(\"unknown entry %s\", r.Entry)\n\t}\n")
	b.WriteString("\tf()\n\tos.Stdout.WriteString(\"VERIF-REPLAY: completed\\n\")\n}\n")
	// several sampled passing-path models in one process
	b.WriteString("\nfunc TestVerifReplaySamples(t *testing.T) {\n\tentries := map[string]func(){\n")
	for _, ent := range e.cfg.Entries {
		fmt.Fprintf(&b, "\t\t%q: %s,\n", ent.Func, ent.Func)
	}
	b.WriteString("\t}\n\tfiles, _ := filepath.Glob(filepath.Join(os.Getenv(\"VERIF_SAMPLE_DIR\"), \"*.json\"))\n")
	b.WriteString("\tfor _, fpath := range files {\n\t\tr := vLoadFrom(fpath)\n\t\tfunc() {\n\t\t\tdefer func() {\n\t\t\t\tif p := recover(); p != nil {\n\t\t\t\t\tfmt.Printf(\"VERIF-SAMPLE %s panic %v\\n\", filepath.Base(fpath), p)\n\t\t\t\t}\n\t\t\t}()\n")
	b.WriteString("\t\t\tentries[r.Entry]()\n\t\t\tfmt.Printf(\"VERIF-SAMPLE %s completed failed=%d infeasible=%v\\n\", filepath.Base(fpath), len(vFailed), vInfeasible)\n\t\t}()\n\t}\n}\n")
	return b.String()
}

// nativeReplay compiles the same harness into the real package with `go test
// -overlay` and runs it with the model's values. It reports whether the
// violation reproduces against the real build.
func (e *Engine) nativeReplay(replayPath string, ent *EntryCfg, v *Violation) (bool, string) {
	modDir := filepath.Join(e.repoRoot, e.cfg.Module)
	pkgDir := filepath.Join(modDir, strings.TrimPrefix(e.cfg.Package, "./"))
	pkgName, _ := goPackageName(pkgDir)
	work := filepath.Join(e.verifRoot, ".work", fmt.Sprintf("%s-%d", e.cfg.Property, os.Getpid()))
	os.MkdirAll(work, 0o755)
	testReal := filepath.Join(work, "zz_verif_replay_test.go")
	os.WriteFile(testReal, []byte(e.replayTestSource(pkgName)), 0o644)
	ov := map[string]map[string]string{"Replace": {}}
	for virt, real := range e.overlayFiles {
		ov["Replace"][virt] = real
	}
	for virt, real := range e.nativeRedir.files {
		ov["Replace"][virt] = real
	}
	ov["Replace"][filepath.Join(pkgDir, "zz_verif_replay_test.go")] = testReal
	ovPath := filepath.Join(work, "overlay.json")
	writeJSON(ovPath, ov)
	attempts := 1
	if needsRetry(v) {
		attempts = 40
	}
	var out []byte
	for i := 0; i < attempts; i++ {
		cmd := exec.Command("go", "test", "-tags", "verif", "-vet=off", "-count=1", "-v", "-run", "^TestVerifReplay$", "-overlay", ovPath, e.cfg.Package)
		cmd.Dir = modDir
		cmd.Env = append(os.Environ(), "GOFLAGS=-mod=mod", "GOPROXY=off", "GOSUMDB=off", "GOTOOLCHAIN=local", "VERIF_REPLAY="+replayPath)
		out, _ = cmd.CombinedOutput()
		s := string(out)
		switch v.Kind {
		case "crash":
			if strings.Contains(s, "panic:") && !strings.Contains(s, "VERIF-REPLAY: assumption-false") {
				return true, s
			}
		default:
			if strings.Contains(s, "VERIF-REPLAY: assert-failed "+v.AssertID) && !strings.Contains(s, "VERIF-REPLAY: assumption-false") {
				return true, s
			}
		}
		if strings.Contains(s, "[build failed]") || strings.Contains(s, "cannot find") {
			break
		}
		if !strings.Contains(s, "VERIF-REPLAY:") && i == attempts-1 && attempts < 3 {
			attempts++ // the native run did not get anywhere (load, port in use): once more
		}
	}
	return false, string(out)
}

// needsRetry: counterexamples that depend on map order or schedule are retried
// (Go's map iteration order is random per run).
func needsRetry(v *Violation) bool {
	for _, c := range v.Choices {
		if c.Label == "maporder" || c.Label == "sched" || c.Label == "select" {
			return true
		}
	}
	return false
}

func replayFile(verifRoot, repoRoot, path string) int {
	if ap, err := filepath.Abs(path); err == nil {
		path = ap
	}
	b, err := os.ReadFile(path)
	if err != nil {
		fmt.Fprintln(os.Stderr, err)
		return 2
	}
	var rf struct {
		Property string      `json:"property"`
		Check    string      `json:"check"`
		Entry    string      `json:"entry"`
		Assert   string      `json:"assert"`
		Kind     string      `json:"kind"`
		Choices  []ChoiceRec `json:"choices"`
	}
	if err := json.Unmarshal(b, &rf); err != nil {
		fmt.Fprintln(os.Stderr, err)
		return 2
	}
	cfgName := rf.Property
	if rf.Check != "" {
		cfgName = rf.Check
	}
	cfg, err := loadCfg(verifRoot, cfgName)
	if err != nil {
		fmt.Fprintln(os.Stderr, err)
		return 2
	}
	e := &Engine{cfg: cfg, verifRoot: verifRoot, repoRoot: repoRoot}
	e.registerIntrinsics()
	e.registerIntrinsics2()
	defer os.RemoveAll(filepath.Join(verifRoot, ".work", fmt.Sprintf("%s-%d", cfg.Property, os.Getpid())))
	if err := e.load(); err != nil {
		fmt.Fprintln(os.Stderr, "load:", err)
		return 2
	}
	var ent *EntryCfg
	for _, x := range cfg.Entries {
		if x.Func == rf.Entry {
			ent = x
		}
	}
	ok, out := e.nativeReplay(path, ent, &Violation{AssertID: rf.Assert, Kind: rf.Kind, Choices: rf.Choices})
	fmt.Println(out)
	if ok {
		fmt.Printf("VIOLATION property=%s replay=%s\n", rf.Property, path)
		return 1
	}
	fmt.Println("replay did not reproduce the violation")
	return 0
}

// ---------- evidence ----------

func (e *Engine) writeEvidence(results []*EntryResult, tier string, seed int64, wall float64, problems []string, violations int) {
	states, transitions, obligations, discharged, paths := 0, 0, 0, 0, 0
	var samples []interface{}
	funcs := map[string]bool{}
	entries := []map[string]interface{}{}
	exhaustive := len(results) > 0
	known := map[string]int{}
	panicPaths := 0
	for _, r := range results {
		paths += r.Paths
		states += r.Paths + r.Forks
		transitions += r.Forks + r.Paths
		obligations += r.Obligations
		discharged += r.Discharged
		panicPaths += r.CrashPaths
		if !r.Exhaustive {
			exhaustive = false
		}
		for _, s := range r.Samples {
			if len(samples) < 8 {
				samples = append(samples, map[string]interface{}{"entry": r.Entry.Func, "passing_path_model": s})
			}
		}
		for _, f := range e.funcList(r.Funcs) {
			funcs[f] = true
		}
		for k, n := range r.KnownSeen {
			known[k] += n
		}
		reached := map[string]int{}
		for k, n := range r.Reached {
			reached[k] = n
		}
		entries = append(entries, map[string]interface{}{
			"entry": r.Entry.Func, "paths": r.Paths, "ok_paths": r.OkPaths, "infeasible_paths": r.Infeasible,
			"panic_paths": r.CrashPaths, "forks": r.Forks, "obligations": r.Obligations, "discharged": r.Discharged,
			"violating_paths": len(r.Violations), "reached": reached, "params": e.effectiveParams(r.Entry),
			"exhaustive_within_bounds": r.Exhaustive, "seconds": r.Secs, "interpreted_steps": r.Steps,
			"max_decisions_on_a_path": r.MaxDecisions, "map_order_forked": r.Entry.MapOrder,
			"schedule_exploring": r.Entry.Exploring, "forced_schedules_blocked_forever(infeasible)": r.Deadlocks, "context_switch_budget": r.Entry.CS, "note": r.Entry.Note,
			"solver_unknown_feasibility_answers": r.Unknowns,
		})
	}
	if len(samples) == 0 {
		for _, r := range results {
			samples = append(samples, map[string]interface{}{"entry": r.Entry.Func, "paths": r.Paths, "note": "no symbolic inputs on passing paths or none sampled"})
		}
	}
	if len(samples) == 0 {
		samples = append(samples, "no entry executed")
	}
	var fl []string
	for f := range funcs {
		fl = append(fl, f)
	}
	sort.Strings(fl)
	var intr []string
	e.funcsMu.Lock()
	for k := range e.funcsSeen {
		intr = append(intr, k)
	}
	e.funcsMu.Unlock()
	sort.Strings(intr)
	tb := append([]string{
		"go/packages + go/ssa (golang.org/x/tools v0.29.0) as the semantics of the Go source",
		"symgo symbolic executor (/verif/engine)",
		"solver " + e.cfg.Solver,
		"go toolchain for native replay of counterexamples",
	}, e.cfg.TrustedBase...)
	for _, i := range intr {
		tb = append(tb, "intrinsic model: "+i)
	}
	for _, z := range e.cfg.ZeroStubs {
		tb = append(tb, "stubbed (returns zero values): "+z)
	}
	for from, to := range e.cfg.Redirects {
		tb = append(tb, "redirected to harness function: "+from+" -> "+to)
	}
	for fn, h := range e.cfg.CallHooks {
		tb = append(tb, "harness hook around real function "+fn+": before="+h.Before+" after="+h.After)
	}
	ev := map[string]interface{}{
		"property_id": e.cfg.Property,
		"tier":        tier,
		"seed":        seed,
		"level":       "model_checking",
		"coverage": map[string]interface{}{
			"states":                        max1(states),
			"transitions":                   max1(transitions),
			"traces_validated_against_impl": violations,
			"samples":                       samples,
			"obligations":                   obligations,
			"discharged":                    discharged,
			"paths":                         paths,
			"exhaustive":                    exhaustive && len(problems) == 0,
			"functions_encoded":             fl,
			"entries":                       entries,
			"bounds":                        e.cfg.Bounds,
			"solver_queries":                atomic.LoadInt64(&solverQueries),
			"solver_time_s":                 float64(atomic.LoadInt64(&solverNanos)) / 1e9,
			"cross_solver":                  e.cfg.CrossSolver,
			"cross_checked_unsat":           atomic.LoadInt64(&crossAsked),
			"cross_agree":                   atomic.LoadInt64(&crossAgree),
			"cross_unknown":                 atomic.LoadInt64(&crossUnknown),
			"cross_disagree":                atomic.LoadInt64(&crossDisagree),
			"cross_time_s":                  float64(atomic.LoadInt64(&crossNanos)) / 1e9,
			"load_time_s":                   e.loadSecs,
			"trusted_base":                  tb,
			"known_findings_seen":           known,
			"panic_paths":                   panicPaths,
			"inconclusive":                  problems,
			"explanation":                   "symbolic execution of the real functions (go/ssa of /repo's working tree + harness overlay); every vAssert is an SMT query pathcond ∧ ¬cond that must be unsat; states = explored path prefixes, transitions = forks; traces_validated_against_impl = sampled passing-path models (and any counterexamples) replayed natively against the real build with agreeing assertion outcomes",
		},
		"assumptions": e.cfg.Assumptions,
		"wall_s":      wall,
		"violations":  violations,
	}
	dir := filepath.Join(e.verifRoot, "evidence")
	if evidenceDir != "" {
		dir = evidenceDir
	}
	writeJSON(filepath.Join(dir, e.cfg.Property+".json"), ev)
}

func max1(n int) int {
	if n < 1 {
		return 1
	}
	return n
}

// validateSamples replays sampled satisfying models of PASSING paths natively
// (same harness, real compiled code). Every assertion must hold natively too; a
// failing assertion or a panic is a disagreement between the encoding and the
// implementation. Samples whose native run leaves the sampled path (an
// assumption turns false, e.g. because Go picked another map order) are not
// counted. Returns (validated, disagreements).
func (e *Engine) validateSamples(results []*EntryResult) (int, []string) {
	modDir := filepath.Join(e.repoRoot, e.cfg.Module)
	pkgDir := filepath.Join(modDir, strings.TrimPrefix(e.cfg.Package, "./"))
	pkgName, _ := goPackageName(pkgDir)
	work := filepath.Join(e.verifRoot, ".work", fmt.Sprintf("%s-%d", e.cfg.Property, os.Getpid()))
	sdir := filepath.Join(work, "samples")
	os.MkdirAll(sdir, 0o755)
	n := 0
	for _, r := range results {
		for i, smp := range r.Samples {
			rf := map[string]interface{}{"property": e.cfg.Property, "entry": r.Entry.Func, "values": smp, "params": e.effectiveParams(r.Entry)}
			writeJSON(filepath.Join(sdir, fmt.Sprintf("%s-%02d.json", r.Entry.Func, i)), rf)
			n++
		}
	}
	if n == 0 {
		return 0, nil
	}
	testReal := filepath.Join(work, "zz_verif_replay_test.go")
	os.WriteFile(testReal, []byte(e.replayTestSource(pkgName)), 0o644)
	ov := map[string]map[string]string{"Replace": {}}
	for virt, real := range e.overlayFiles {
		ov["Replace"][virt] = real
	}
	for virt, real := range e.nativeRedir.files {
		ov["Replace"][virt] = real
	}
	ov["Replace"][filepath.Join(pkgDir, "zz_verif_replay_test.go")] = testReal
	ovPath := filepath.Join(work, "overlay.json")
	writeJSON(ovPath, ov)
	var out []byte
	// the native validation is supporting evidence: it gets at most six minutes (a cold build
	// cache, real sleeps in retry loops); what did not finish in time is simply not counted
	valDeadline := time.Now().Add(6 * time.Minute)
	for attempt := 0; attempt < 3 && time.Now().Before(valDeadline); attempt++ {
		ctx, cancel := context.WithDeadline(context.Background(), valDeadline)
		cmd := exec.CommandContext(ctx, "go", "test", "-tags", "verif", "-vet=off", "-count=1", "-v", "-timeout", "20m", "-run", "^TestVerifReplaySamples$", "-overlay", ovPath, e.cfg.Package)
		cmd.Dir = modDir
		cmd.Env = append(os.Environ(), "GOFLAGS=-mod=mod", "GOPROXY=off", "GOSUMDB=off", "GOTOOLCHAIN=local", "VERIF_SAMPLE_DIR="+sdir)
		cmd.WaitDelay = 5 * time.Second
		out, _ = cmd.CombinedOutput()
		cancel()
		if strings.Contains(string(out), "VERIF-SAMPLE ") || strings.Contains(string(out), "[build failed]") {
			break
		}
	}
	validated := 0
	var bad []string
	seen := 0
	var failedIDs []string
	for _, line := range strings.Split(string(out), "\n") {
		if strings.HasPrefix(line, "VERIF-REPLAY: assert-failed ") {
			failedIDs = append(failedIDs, strings.TrimPrefix(line, "VERIF-REPLAY: assert-failed "))
			continue
		}
		if !strings.HasPrefix(line, "VERIF-SAMPLE ") {
			continue
		}
		if len(failedIDs) > 0 {
			line += " [" + strings.Join(failedIDs, ", ") + "]"
			failedIDs = nil
		}
		seen++
		switch {
		case strings.Contains(line, " panic "):
			bad = append(bad, line)
		case strings.Contains(line, "infeasible=true"):
			// left the sampled path natively: not comparable
		case strings.Contains(line, "failed=0"):
			validated++
		default:
			bad = append(bad, line)
		}
	}
	if seen == 0 {
		if strings.Contains(string(out), "[build failed]") {
			bad = append(bad, "native sample replay does not build: "+lastLines(string(out), 30))
		} else if strings.Contains(string(out), "panic:") || strings.Contains(string(out), "fatal error:") {
			bad = append(bad, "native sample replay crashed (the executor did not): "+lastLines(string(out), 30))
		} else {
			// the native run did not get to a result three times (machine load, a port in use ...):
			// no validation this time; not a disagreement
			fmt.Printf("[%s] native validation could not be run: %s\n", e.cfg.Property, lastLines(string(out), 45))
		}
	}
	return validated, bad
}

// ---------- checks made of several parts ----------

// runParts runs every part config as a child process (its own package load and
// solver pool), forwards its output, and merges the part evidence files into the
// evidence file of the property. Exit: 1 if any part reports a violation, else 2 if
// any part is inconclusive, else 0.
func runParts(verifRoot, repoRoot, id string, cfg *CheckCfg, tier, only string, noReplay, verbose bool) int {
	t0 := time.Now()
	self, err := os.Executable()
	if err != nil {
		fmt.Fprintln(os.Stderr, err)
		return 2
	}
	tmp := filepath.Join(verifRoot, ".work", fmt.Sprintf("%s-parts-%d", id, os.Getpid()))
	os.MkdirAll(tmp, 0o755)
	defer os.RemoveAll(tmp)
	exit := 0
	var merged map[string]interface{}
	for _, part := range cfg.Parts {
		args := []string{"-verif", verifRoot, "-repo", repoRoot, "-evidence-dir", filepath.Join(tmp, part)}
		if only != "" {
			args = append(args, "-entry", only)
		}
		if noReplay {
			args = append(args, "-no-native-replay")
		}
		if verbose {
			args = append(args, "-v")
		}
		if solverOverride != "" {
			args = append(args, "-solver", solverOverride)
		}
		args = append(args, part, tier)
		cmd := exec.Command(self, args...)
		cmd.Stdout, cmd.Stderr = os.Stdout, os.Stderr
		rc := 0
		if err := cmd.Run(); err != nil {
			if ee, ok := err.(*exec.ExitError); ok {
				rc = ee.ExitCode()
			} else {
				rc = 2
			}
		}
		if rc == 1 {
			exit = 1
		} else if rc != 0 && exit == 0 {
			exit = 2
		}
		pcfg, _ := loadCfg(verifRoot, part)
		prop := id
		if pcfg != nil {
			prop = pcfg.Property
		}
		b, err := os.ReadFile(filepath.Join(tmp, part, prop+".json"))
		if err != nil {
			if exit == 0 {
				exit = 2
			}
			continue
		}
		var ev map[string]interface{}
		if json.Unmarshal(b, &ev) != nil {
			continue
		}
		if merged == nil {
			merged = ev
			continue
		}
		mergeEvidence(merged, ev)
	}
	if merged != nil {
		merged["property_id"] = id
		merged["wall_s"] = time.Since(t0).Seconds()
		dir := filepath.Join(verifRoot, "evidence")
		if evidenceDir != "" {
			dir = evidenceDir
		}
		writeJSON(filepath.Join(dir, id+".json"), merged)
	}
	return exit
}

func mergeEvidence(dst, src map[string]interface{}) {
	num := func(v interface{}) float64 {
		f, _ := v.(float64)
		return f
	}
	dst["violations"] = num(dst["violations"]) + num(src["violations"])
	if a, ok := dst["assumptions"].([]interface{}); ok {
		b, _ := src["assumptions"].([]interface{})
		dst["assumptions"] = append(a, b...)
	} else if b, ok := src["assumptions"].([]interface{}); ok {
		dst["assumptions"] = b
	}
	dc, _ := dst["coverage"].(map[string]interface{})
	sc, _ := src["coverage"].(map[string]interface{})
	if dc == nil || sc == nil {
		return
	}
	for _, k := range []string{"states", "transitions", "traces_validated_against_impl", "obligations", "discharged", "paths", "solver_queries", "solver_time_s", "load_time_s", "panic_paths", "cross_checked_unsat", "cross_agree", "cross_unknown", "cross_disagree", "cross_time_s"} {
		dc[k] = num(dc[k]) + num(sc[k])
	}
	de, _ := dc["exhaustive"].(bool)
	se, _ := sc["exhaustive"].(bool)
	dc["exhaustive"] = de && se
	for _, k := range []string{"samples", "functions_encoded", "entries", "trusted_base", "inconclusive"} {
		a, _ := dc[k].([]interface{})
		b, _ := sc[k].([]interface{})
		seen := map[string]bool{}
		var out []interface{}
		for _, x := range append(a, b...) {
			if s, ok := x.(string); ok {
				if seen[s] {
					continue
				}
				seen[s] = true
			}
			out = append(out, x)
		}
		if out == nil {
			out = []interface{}{}
		}
		dc[k] = out
	}
	for _, k := range []string{"bounds", "known_findings_seen"} {
		a, _ := dc[k].(map[string]interface{})
		b, _ := sc[k].(map[string]interface{})
		if a == nil {
			a = map[string]interface{}{}
		}
		for kk, v := range b {
			if old, ok := a[kk]; ok && k == "known_findings_seen" {
				a[kk] = num(old) + num(v)
			} else {
				a[kk] = v
			}
		}
		dc[k] = a
	}
}
