//go:build verif

package server

// C19 harness: the HTTP API is total and rejects are side-effect free.
// Real code: (*CDCServer).handleRequest / handleError, the requestHandlers table,
// MetaCDC.Create with validCreateRequest, checkCollectionInfos,
// checkDuplicateCollection, the revert closures, the position handling, delete;
// Delete / Pause / Resume / Get / GetPosition / List; util.ParseVChannel,
// util.GetCollectionNameFromFull, reader.IsVirtualChannel.
// The claim starts at the decoded request (json -> mapstructure of arbitrary BYTES is
// outside): the request model is built field by field from symbolic values, turned
// into the generic request_data map and handed to the real handleRequest.

import (
	"encoding/json"
	"errors"
	"io"
	"net/http"

	"github.com/mitchellh/mapstructure"

	"github.com/milvus-io/milvus-proto/go-api/v2/msgpb"
	"github.com/milvus-io/milvus/pkg/mq/msgstream"

	"github.com/zilliztech/milvus-cdc/server/model"
	"github.com/zilliztech/milvus-cdc/server/model/meta"
	"github.com/zilliztech/milvus-cdc/server/model/request"
)

// ---- response recorder ----

type c19Writer struct {
	hdr    http.Header
	writes [][]byte
	status int
}

func (w *c19Writer) Header() http.Header { return w.hdr }
func (w *c19Writer) Write(b []byte) (int, error) {
	w.writes = append(w.writes, append([]byte(nil), b...))
	return len(b), nil
}
func (w *c19Writer) WriteHeader(s int) { w.status = s }

// ---- redirect targets ----

var c19StartFails bool

func c19StartInternal(e *MetaCDC, info *meta.TaskInfo, ignoreUpdateState bool) error {
	if c19StartFails {
		return errors.New("fail to start the task")
	}
	e.cdcTasks.Lock()
	info.State = meta.TaskStateRunning
	info.Reason = ""
	e.cdcTasks.Unlock()
	return nil
}

// positions are opaque strings for the API; "bad" does not decode
func c19DecodePos(position string) (*msgstream.MsgPosition, error) {
	if position == "bad" {
		return nil, errors.New("illegal base64 data")
	}
	return &msgpb.MsgPosition{ChannelName: "ch", MsgID: []byte("id"), Timestamp: 0}, nil
}

// ---- symbolic values ----

// one of a finite set of strings, chosen by the solver
func c19OneOf(tag string, opts ...string) string {
	s := vStr(tag, 24)
	ok := false
	for _, o := range opts {
		ok = vOr(ok, s == o)
	}
	vAssume(ok)
	return s
}

const (
	c19T1  = "http://t1:19530"
	c19T2  = "http://t2:19530"
	c19Rpc = "by-dev-replicate-msg"
)

type c19Snap struct {
	tasks    []string
	infos    []string
	states   []meta.TaskState
	poss     []string
	possColl []int64
	data     map[string][]string
	excl     map[string][]string
	extra    map[string]bool
	mapping  map[string]map[string]string
}

func c19Snapshot(cdc *MetaCDC, f *sFactory) *c19Snap {
	s := &c19Snap{data: map[string][]string{}, excl: map[string][]string{}, extra: map[string]bool{}, mapping: map[string]map[string]string{}}
	for _, k := range []string{"task-1", "task-2", "new", ""} {
		if _, ok := cdc.cdcTasks.data[k]; ok {
			s.tasks = append(s.tasks, k)
		}
	}
	for _, i := range f.infos {
		s.infos = append(s.infos, i.TaskID)
		s.states = append(s.states, i.State)
	}
	for _, p := range f.poss {
		s.poss = append(s.poss, p.TaskID)
		s.possColl = append(s.possColl, p.CollectionID)
	}
	for _, k := range []string{c19T1, c19T2, "http://h:1", "k:9092"} {
		s.data[k] = append([]string(nil), cdc.collectionNames.data[k]...)
		s.excl[k] = append([]string(nil), cdc.collectionNames.excludeData[k]...)
		s.extra[k] = cdc.collectionNames.extraInfos[k].EnableUserRole
		m := map[string]string{}
		for a, b := range cdc.collectionNames.nameMapping[k] {
			m[a] = b
		}
		s.mapping[k] = m
	}
	return s
}

func c19SameStrs(a, b []string) bool {
	if len(a) != len(b) {
		return false
	}
	ok := true
	for i := range a {
		ok = vAnd(ok, a[i] == b[i])
	}
	return ok
}

// c19AssertUnchanged: task list, persisted records and duplicate-detection bookkeeping
// are exactly as in the snapshot.
func c19AssertUnchanged(pre, post *c19Snap, tag string) {
	vAssert(c19SameStrs(pre.tasks, post.tasks), "C19.reject-leaves-task-table"+tag)
	same := c19SameStrs(pre.infos, post.infos)
	if same {
		for i := range pre.states {
			same = vAnd(same, pre.states[i] == post.states[i])
		}
	}
	vAssert(same, "C19.reject-leaves-persisted-tasks"+tag)
	samePos := c19SameStrs(pre.poss, post.poss)
	if samePos {
		for i := range pre.possColl {
			samePos = vAnd(samePos, pre.possColl[i] == post.possColl[i])
		}
	}
	vAssert(samePos, "C19.reject-leaves-checkpoints"+tag)
	for _, k := range []string{c19T1, c19T2, "http://h:1", "k:9092"} {
		vAssert(c19SameStrs(pre.data[k], post.data[k]), "C19.reject-leaves-duplicate-bookkeeping:names"+tag)
		vAssert(c19SameStrs(pre.excl[k], post.excl[k]), "C19.reject-leaves-duplicate-bookkeeping:excludes"+tag)
		vAssert(pre.extra[k] == post.extra[k], "C19.reject-leaves-duplicate-bookkeeping:user-role-flag"+tag)
	}
}

// c19Do sends one request through the real handler and returns (isError, code).
func c19Do(srv *CDCServer, typ string, model any) (bool, int, any) {
	data := map[string]any{}
	if model != nil {
		if err := mapstructure.Decode(model, &data); err != nil {
			panic("harness: cannot build request_data: " + err.Error())
		}
	}
	w := &c19Writer{hdr: http.Header{}}
	resp := srv.handleRequest(&request.CDCRequest{RequestType: typ, RequestData: data}, w)
	if resp != nil {
		// the caller (getCDCHandler) encodes {code:200,data:resp}
		vAssert(len(w.writes) == 0, "C19.exactly-one-response")
		return false, 200, resp
	}
	vAssert(len(w.writes) == 1, "C19.exactly-one-response")
	code := 0
	if len(w.writes) == 1 {
		var r request.CDCResponse
		err := json.Unmarshal(w.writes[0], &r)
		vAssert(err == nil, "C19.response-is-json")
		code = r.Code
	}
	vAssert(code == 400 || code == 500, "C19.error-code-is-400-or-500")
	return true, code, nil
}

func c19NewServer(f *sFactory) (*MetaCDC, *CDCServer) {
	cdc := sNewCDC(f)
	cdc.config.MaxNameLength = 2
	sUUID = 0
	sConnectFails = false
	c19StartFails = false
	return cdc, &CDCServer{api: cdc, serverConfig: cdc.config}
}

// c19Prior optionally installs one accepted task on target t1.
func c19Prior(cdc *MetaCDC, srv *CDCServer) bool {
	if vChoice("prior", 2) == 0 {
		return false
	}
	req := &request.CreateRequest{
		MilvusConnectParam: model.MilvusConnectParam{URI: c19T1},
		CollectionInfos:    []model.CollectionInfo{{Name: c19OneOf("prior.coll", "a", "*")}},
		ExtraInfo:          model.ExtraInfo{EnableUserRole: vBool("prior.userRole")},
	}
	isErr, _, _ := c19Do(srv, request.Create, req)
	vAssume(!isErr)
	return true
}

// The create request space is explored in three entries that each vary one group of
// fields and keep the others at valid defaults (sum instead of product of the groups):
//   Validation: target shape, numbers, credentials, rpc channel, collection-list shapes, names
//   Positions : start positions (channel menus, undecodable values), rpc position, task id,
//               start / connect failures, on an empty server or after one accepted request
//   Names     : arbitrary names (separators, wildcards), name mapping, user-role flag,
//               after one accepted request or on an empty server
func VerifC19_CreateValidation() { c19Create(0) }
func VerifC19_CreatePositions()  { c19Create(1) }
func VerifC19_CreateNames()      { c19Create(2) }

func c19Create(mode int) {
	L := vParam("L", 2)
	f := newSFactory()
	cdc, srv := c19NewServer(f)
	if mode != 0 {
		c19Prior(cdc, srv)
	}

	req := &request.CreateRequest{}
	// ---- target ----
	milvusSet, kafkaSet := true, false
	if mode == 0 {
		milvusSet = false
		switch vChoice("target", 5) {
		case 0:
			req.MilvusConnectParam.URI = c19T2
			milvusSet = true
		case 1: // deprecated host/port form
			req.MilvusConnectParam.Host = c19OneOf("host", "", "h")
			req.MilvusConnectParam.Port = vInt("port")
			milvusSet = vOr(req.MilvusConnectParam.Host != "", req.MilvusConnectParam.Port > 0)
		case 2:
			req.KafkaConnectParam.Address = "k:9092"
			req.KafkaConnectParam.Topic = c19OneOf("topic", "", "t")
			kafkaSet = true
		case 3:
			req.MilvusConnectParam.URI = c19T2
			req.KafkaConnectParam.Address = "k:9092"
			req.KafkaConnectParam.Topic = "t"
			milvusSet, kafkaSet = true, true
		case 4:
		}
		req.MilvusConnectParam.Username = c19OneOf("user", "", "u")
		req.MilvusConnectParam.Password = c19OneOf("pwd", "", "p")
		req.MilvusConnectParam.ConnectTimeout = vInt("connectTimeout")
		req.BufferConfig.Period = vInt("period")
		req.BufferConfig.Size = vInt("size")
		req.RPCChannelInfo.Name = c19OneOf("rpc.name", "", c19Rpc, "other-chan")
	} else {
		req.MilvusConnectParam.URI = c19OneOf("uri", c19T1, c19T2)
	}
	if mode == 1 {
		req.TaskID = c19OneOf("taskID", "", "task-1", "new")
		req.RPCChannelInfo.Position = c19OneOf("rpc.pos", "", "good", "bad")
		c19StartFails = vBool("startFails")
	}
	if mode == 0 {
		sConnectFails = vBool("connectFails")
	}
	if mode != 0 {
		req.ExtraInfo.EnableUserRole = vBool("userRole")
	}

	// ---- collections ----
	nCI, nDB := 1, 0
	if mode == 0 {
		nCI, nDB = vChoice("nCollectionInfos", 3), vChoice("nDBCollections", 3)
	} else if vBool("dbForm") {
		nCI, nDB = 0, 1
	}
	// badPos: undecodable value; foreignChan: not a virtual channel (validation stage);
	// mixedColl: rejected when the channel names are parsed (creation stage)
	badPos, foreignChan, mixedColl := false, false, false
	name := func(tag string) string {
		if mode == 1 {
			return c19OneOf(tag, "a", "*")
		}
		return vStr(tag, L+1)
	}
	mkInfo := func(tag string, withPos bool) model.CollectionInfo {
		ci := model.CollectionInfo{Name: name(tag + ".name")}
		if !withPos || mode != 1 {
			return ci
		}
		switch vChoice("positions", 7) {
		case 0:
		case 1:
			ci.Positions = map[string]string{"ch1_5v0": c19OneOf("pos0", "good", "bad")}
			badPos = ci.Positions["ch1_5v0"] == "bad"
		case 2:
			ci.Positions = map[string]string{"ch1_5v0": c19OneOf("pos0", "good", "bad"), "ch2_5v1": c19OneOf("pos1", "good", "bad")}
			badPos = vOr(ci.Positions["ch1_5v0"] == "bad", ci.Positions["ch2_5v1"] == "bad")
		case 3:
			ci.Positions = map[string]string{"ch1_5v0": "good", "ch2_6v1": "good"}
			mixedColl = true
		case 4:
			ci.Positions = map[string]string{"ch1": "good"}
			foreignChan = true
		case 5:
			ci.Positions = map[string]string{"ch_v": "good"} // passes the weak virtual-channel test of the validation, rejected when parsed
			mixedColl = true
		case 6:
			ci.Positions = map[string]string{"": "good"}
			foreignChan = true
		}
		return ci
	}
	single := nCI+nDB == 1
	for i := 0; i < nCI; i++ {
		req.CollectionInfos = append(req.CollectionInfos, mkInfo("ci", single))
	}
	dbTooLong := false
	if nDB > 0 {
		req.DBCollections = map[string][]model.CollectionInfo{}
		first := ""
		for i := 0; i < nDB; i++ {
			db := name("db.name")
			if i == 0 {
				first = db
			} else {
				vAssume(db != first)
			}
			dbTooLong = vOr(dbTooLong, len(db) > cdc.config.MaxNameLength)
			n := 1
			if single && mode == 0 {
				n = 1 + vChoice("nInDB", 2)
			}
			var infos []model.CollectionInfo
			for j := 0; j < n; j++ {
				infos = append(infos, mkInfo("dbci", single && n == 1))
			}
			req.DBCollections[db] = infos
		}
	}
	if mode == 2 && vChoice("nameMapping", 2) == 1 {
		nm := model.NameMapping{SourceDB: vStr("map.src", L+1), TargetDB: c19OneOf("map.dst", "default", "y")}
		if vBool("map.hasCollection") {
			nm.CollectionMapping = map[string]string{vStr("map.coll", L+1): "z"}
		}
		req.NameMapping = []model.NameMapping{nm}
	}

	// ---- reference: requests that MUST be rejected (from the statement's list) ----
	mp := req.MilvusConnectParam
	mustReject := vOr(vAnd(!milvusSet, !kafkaSet), vAnd(milvusSet, kafkaSet)) // conflicting / missing target
	mustReject = vOr(mustReject, vOr(req.BufferConfig.Period < 0, req.BufferConfig.Size < 0))
	if milvusSet {
		mustReject = vOr(mustReject, mp.ConnectTimeout < 0)
		if mp.URI == "" {
			mustReject = vOr(mustReject, vOr(mp.Host == "", mp.Port <= 0))
		}
	}
	mustReject = vOr(mustReject, vAnd(req.RPCChannelInfo.Name != "", req.RPCChannelInfo.Name != c19Rpc)) // foreign rpc channel
	mustReject = vOr(mustReject, foreignChan)
	mustReject = vOr(mustReject, dbTooLong)
	for _, ci := range req.CollectionInfos {
		mustReject = vOr(mustReject, vOr(ci.Name == "", len(ci.Name) > cdc.config.MaxNameLength))
	}
	for _, infos := range req.DBCollections {
		for _, ci := range infos {
			mustReject = vOr(mustReject, vOr(ci.Name == "", len(ci.Name) > cdc.config.MaxNameLength))
		}
	}
	existing := false
	if req.TaskID != "" {
		_, existing = cdc.cdcTasks.data[req.TaskID]
	}
	if !existing {
		// a create naming an existing task id answers with that task (idempotent create) before
		// positions are looked at; everything else must reject undecodable / inconsistent positions
		mustReject = vOr(mustReject, vOr(req.RPCChannelInfo.Position == "bad", vOr(badPos, mixedColl)))
	}

	pre := c19Snapshot(cdc, f)
	isErr, _, resp := c19Do(srv, request.Create, req)
	post := c19Snapshot(cdc, f)

	vAssert(vImplies(mustReject, isErr), "C19.invalid-create-request-is-rejected")
	if isErr {
		c19AssertUnchanged(pre, post, "")
	} else {
		cr, ok := resp.(*request.CreateResponse)
		vAssert(ok && cr != nil && cr.TaskID != "", "C19.create-answers-with-a-task-id")
		if !existing && ok && cr != nil {
			_, reg := cdc.cdcTasks.data[cr.TaskID]
			vAssert(reg, "C19.accepted-create-is-registered")
		}
	}
	vReach("end")
}

// VerifC19_Others: every other request type with arbitrary task ids, on a server with
// zero or one task (running or paused); unknown request types.
func VerifC19_Others() {
	f := newSFactory()
	cdc, srv := c19NewServer(f)
	has := c19Prior(cdc, srv)
	if has && vBool("pausedFirst") {
		isErr, _, _ := c19Do(srv, request.Pause, &request.PauseRequest{TaskID: "task-1"})
		vAssume(!isErr)
	}
	id := c19OneOf("id", "", "task-1", "nope")
	c19StartFails = vBool("startFails")
	pre := c19Snapshot(cdc, f)
	var isErr bool
	var code int
	kind := vChoice("request", 8)
	ignoreNotFound := false
	switch kind {
	case 0:
		ignoreNotFound = vBool("ignoreNotFound")
		isErr, code, _ = c19Do(srv, request.Delete, &request.DeleteRequest{TaskID: id, IgnoreNotFound: ignoreNotFound})
	case 1:
		isErr, code, _ = c19Do(srv, request.Pause, &request.PauseRequest{TaskID: id})
	case 2:
		isErr, code, _ = c19Do(srv, request.Resume, &request.ResumeRequest{TaskID: id})
	case 3:
		isErr, code, _ = c19Do(srv, request.Get, &request.GetRequest{TaskID: id})
		vAssert(vImplies(vOr(id != "task-1", !has), isErr), "C19.get-of-unknown-task-is-an-error")
	case 4:
		isErr, code, _ = c19Do(srv, request.GetPosition, &request.GetPositionRequest{TaskID: id})
	case 5:
		isErr, code, _ = c19Do(srv, request.List, &request.ListRequest{})
		vAssert(!isErr, "C19.list-succeeds")
	case 6:
		isErr, code, _ = c19Do(srv, "no-such-type", nil)
		vAssert(isErr && code == 400, "C19.unknown-request-type-is-400")
	case 7:
		isErr, code, _ = c19Do(srv, "", nil)
		vAssert(isErr && code == 400, "C19.unknown-request-type-is-400")
	}
	post := c19Snapshot(cdc, f)
	if kind <= 2 {
		known := has && id == "task-1"
		if kind == 0 {
			vAssert(vImplies(vAnd(!known, !ignoreNotFound), isErr), "C19.operation-on-unknown-task-is-an-error")
		} else {
			vAssert(vImplies(!known, isErr), "C19.operation-on-unknown-task-is-an-error")
		}
	}
	if isErr {
		c19AssertUnchanged(pre, post, ":other")
	}
	_ = code
	vReach("end")
}

// ---- the whole http handler: method check, body read, JSON decode, dispatch, answer ----

type c19Body struct {
	data []byte
	fail bool
}

func (b *c19Body) Read(p []byte) (int, error) { return 0, errors.New("harness: Read is replaced by c19ReadAll") }
func (b *c19Body) Close() error              { return nil }

// stands in for ioutil.ReadAll on the harness body (a failing read is a free boolean)
func c19ReadAll(r io.Reader) ([]byte, error) {
	b := r.(*c19Body)
	if b.fail {
		return nil, errors.New("unexpected EOF")
	}
	return b.data, nil
}

func c19HeaderSet(h http.Header, key, value string) {}

// VerifC19_Handler: any method, any body (unreadable, not JSON, JSON with an unknown or a
// known request type) yields exactly one JSON answer with code 200 / 400 / 500, or 405 for
// a method other than POST.
func VerifC19_Handler() {
	f := newSFactory()
	cdc, srv := c19NewServer(f)
	c19Prior(cdc, srv)
	method := c19OneOf("method", "POST", "GET", "")
	body := &c19Body{}
	kind := vChoice("body", 9)
	switch kind {
	case 6: // JSON literals that are not objects
		body.data = []byte([]string{"null", " null\n", "[]", "0", "\"\"", "true"}[vChoice("literal", 6)])
	case 7:
		body.data = []byte("{}")
	case 8:
		body.data = []byte("")
	case 0:
		body.fail = true
	case 1:
		body.data = []byte("{not json")
	case 2:
		body.data, _ = json.Marshal(&request.CDCRequest{RequestType: "no-such-type"})
	case 3:
		data := map[string]any{}
		_ = mapstructure.Decode(&request.GetRequest{TaskID: c19OneOf("id", "", "task-1", "nope")}, &data)
		body.data, _ = json.Marshal(&request.CDCRequest{RequestType: request.Get, RequestData: data})
	case 4:
		body.data, _ = json.Marshal(&request.CDCRequest{RequestType: request.List})
	case 5:
		data := map[string]any{}
		_ = mapstructure.Decode(&request.CreateRequest{MilvusConnectParam: model.MilvusConnectParam{URI: c19T2},
			CollectionInfos: []model.CollectionInfo{{Name: c19OneOf("name", "a", "", "*")}}, BufferConfig: model.BufferConfig{Period: vInt("period")}}, &data)
		body.data, _ = json.Marshal(&request.CDCRequest{RequestType: request.Create, RequestData: data})
	}
	w := &c19Writer{hdr: http.Header{}}
	req := &http.Request{Method: method, Body: body}
	srv.getCDCHandler().ServeHTTP(w, req)
	vAssert(len(w.writes) == 1, "C19.exactly-one-response")
	if len(w.writes) != 1 {
		return
	}
	var r request.CDCResponse
	err := json.Unmarshal(w.writes[0], &r)
	vAssert(err == nil, "C19.response-is-json")
	vAssert(r.Code == 200 || r.Code == 400 || r.Code == 500 || r.Code == 405, "C19.code-is-200-400-500-or-405")
	vAssert((r.Code == 405) == (method != "POST"), "C19.405-exactly-for-non-POST")
	if method == "POST" {
		if kind <= 1 {
			vAssert(r.Code == 500, "C19.unreadable-or-undecodable-body-is-an-error")
		}
		if kind == 2 || kind == 7 {
			vAssert(r.Code == 400, "C19.unknown-request-type-is-400")
		}
		if kind == 6 || kind == 8 {
			vAssert(r.Code == 400 || r.Code == 500, "C19.body-that-is-not-a-request-object-is-an-error")
		}
		if kind == 4 {
			vAssert(r.Code == 200, "C19.list-succeeds")
		}
	}
	vReach("end")
}
