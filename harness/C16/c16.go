//go:build verif

package util

// C16 harnesses: channel-count mapping is balanced, total and stable.
// Real code: core/util/channel_mapping.go (all of it).

// refCeil is the reference quota ceil(larger/smaller) written from the property text.
func refCeil(a, b int) int {
	larger, smaller := a, b
	if b > a {
		larger, smaller = b, a
	}
	q := larger / smaller
	if q*smaller < larger {
		q++
	}
	return q
}

// VerifC16_Average: average() equals ceil(larger/smaller) for all counts in [1, N].
func VerifC16_Average() {
	n := vParam("N", 64)
	s := vInt("sourceCnt")
	t := vInt("targetCnt")
	vAssume(vAnd(s >= 1, s <= n))
	vAssume(vAnd(t >= 1, t <= n))
	got := average(s, t)
	vAssert(got == refCeil(s, t), "C16.average-is-ceil")
	m := NewChannelMapping(s, t)
	vAssert(m.AverageCnt() == got, "C16.new-stores-average")
	// exactly one table is initialised, matching the direction
	vAssert((m.sameMapping != nil) == (s == t), "C16.same-table-iff-equal")
	vAssert((m.sourceMapping != nil) == (s > t), "C16.source-table-iff-source-more")
	vAssert((m.targetMapping != nil) == (s < t), "C16.target-table-iff-target-more")
	vReach("end")
}

type c16pair struct{ k, v string }

// table returns the live table of a mapping and whether keys are source channels.
func c16table(m *ChannelMapping) map[string]string {
	if m.sameMapping != nil {
		return m.sameMapping
	}
	if m.sourceMapping != nil {
		return m.sourceMapping
	}
	return m.targetMapping
}

func c16countValue(tab map[string]string, v string) int {
	n := 0
	for _, x := range tab {
		if x == v {
			n++
		}
	}
	return n
}

// VerifC16_Step: one offer (source, target) on an arbitrary table satisfying the
// quota invariant, following the manager's protocol (replicate_channel_manager.go
// startReadChannel: assign only when the key is new and CheckKeyNotExist allows it).
func VerifC16_Step() {
	L := vParam("L", 3)
	E := vParam("E", 3)
	mode := vChoice("mode", 3) // 0 same, 1 source more, 2 target more
	avg := vInt("averageCnt")
	vAssume(vAnd(avg >= 1, avg <= 8))
	m := &ChannelMapping{averageCnt: avg}
	switch mode {
	case 0:
		m.sameMapping = map[string]string{}
		vAssume(avg == 1)
	case 1:
		m.sourceMapping = map[string]string{}
		vAssume(avg >= 2) // counts differ, so ceil(larger/smaller) >= 2
	default:
		m.targetMapping = map[string]string{}
		vAssume(avg >= 2)
	}
	tab := c16table(m)
	n := vChoice("entries", E+1)
	var pre []c16pair
	for i := 0; i < n; i++ {
		k := vStr("k", L)
		v := vStr("v", L)
		vAssume(v != "") // AddKeyValue is only called with real channel names
		_, dup := tab[k]
		vAssume(!dup)
		tab[k] = v
		pre = append(pre, c16pair{k, v})
	}
	// representation invariant: every value serves at most averageCnt keys
	for _, p := range pre {
		vAssume(c16countValue(tab, p.v) <= avg)
	}
	src := vStr("source", L)
	tgt := vStr("target", L)
	vAssume(vAnd(src != "", tgt != ""))
	key := m.GetMapKey(src, tgt)
	val := m.GetMapValue(src, tgt)
	// key/value orientation
	if mode == 2 {
		vAssert(vAnd(key == tgt, val == src), "C16.key-orientation")
	} else {
		vAssert(vAnd(key == src, val == tgt), "C16.key-orientation")
	}
	_, known := tab[key]
	added := false
	if !known {
		if m.CheckKeyNotExist(src, tgt) {
			m.AddKeyValue(src, tgt)
			added = true
		}
	}
	post := c16table(m)
	// stability: existing assignments unchanged
	for _, p := range pre {
		got, ok := post[p.k]
		vAssert(vAnd(ok, got == p.v), "C16.stable")
	}
	// balance: no value serves more than the quota
	for _, x := range post {
		vAssert(c16countValue(post, x) <= avg, "C16.balanced")
	}
	if added {
		got, ok := post[key]
		vAssert(vAnd(ok, got == val), "C16.assigned-exactly-once")
		vAssert(len(post) == len(pre)+1, "C16.one-new-entry")
		vAssert(m.CheckKeyExist(src, tgt), "C16.exist-after-add")
	} else {
		vAssert(len(post) == len(pre), "C16.no-entry-when-refused")
	}
	if mode == 0 {
		// equal counts: injective
		for k1, v1 := range post {
			for k2, v2 := range post {
				vAssert(vImplies(v1 == v2, k1 == k2), "C16.same-count-injective")
			}
		}
	}
	// a refusal happens only when the quota is exhausted
	if !known && !added {
		vAssert(c16countValue(post, val) >= avg, "C16.refuse-only-when-full")
	}
	vReach("end")
}
