//go:build verif

package writer

// C08 harnesses: a DDL applies to the incarnation it was issued for, else is
// skipped. Real code: getObjState, Wait{Database,Collection,Partition}Ready,
// WaitObjReady, WaitObjReadyForAPIEvent and every op function with the
// skip-before / skip-after pattern (core/writer/channel_writer.go).

import (
	"context"

	"github.com/milvus-io/milvus-proto/go-api/v2/commonpb"
	"github.com/milvus-io/milvus-proto/go-api/v2/milvuspb"
	"github.com/milvus-io/milvus-proto/go-api/v2/schemapb"
	"github.com/milvus-io/milvus/pkg/mq/msgstream"

	"github.com/zilliztech/milvus-cdc/core/api"
	"github.com/zilliztech/milvus-cdc/core/pb"
	"github.com/zilliztech/milvus-cdc/core/util"
)

// c08Ref is the reference decision written from the property text:
// a live incarnation is known when a create time is recorded that is not older
// than the recorded drop; then the op applies iff it is not older than that
// creation (an older op belongs to a dead incarnation: skip). Without a known
// live incarnation the op is skipped iff a drop at or after t is recorded;
// otherwise nothing is known.
func c08Ref(t, ctime, dtime uint64, cok, dok bool) InfoState {
	live := vAnd(cok, vOr(!dok, ctime >= dtime))
	if live {
		if t >= ctime {
			return InfoStateCreated
		}
		return InfoStateDropped
	}
	if vAnd(dok, t <= dtime) {
		return InfoStateDropped
	}
	return InfoStateUnknown
}

// VerifC08_Decision: full-width differential check of the pure decision.
func VerifC08_Decision() {
	t, ct, dt := vU64("mtime"), vU64("ctime"), vU64("dtime")
	cok, dok := vBool("cok"), vBool("dok")
	got := getObjState(t, ct, dt, cok, dok)
	want := c08Ref(t, ct, dt, cok, dok)
	vAssert(got == want, "C08.decision-equals-reference")
	vReach("end")
}

// ---- table model used by the cascade reference ----

type c08Tab struct {
	cok, dok [3]bool
	ct, dt   [3]uint64
}

const (
	c08DB   = "db1"
	c08Coll = "c1"
	c08Part = "p1"
)

func c08Keys(level int, db string) (string, string) {
	switch level {
	case 0:
		return util.GetDBInfoKeys(db)
	case 1:
		return util.GetCollectionInfoKeys(c08Coll, db)
	}
	return util.GetPartitionInfoKeys(c08Part, c08Coll, db)
}

func c08Table(w *ChannelWriter, level int) *util.Map[string, uint64] {
	switch level {
	case 0:
		return &w.dbInfos
	case 1:
		return &w.collectionInfos
	}
	return &w.partitionInfos
}

// ---- records of OTHER objects (siblings whose names extend / are extended by the op's names) ----

type c08Rec struct {
	level int
	key   string
	val   uint64
}

// c08Foreign stores create and drop records of sibling objects - names that share a prefix with
// the operation's names up to the '_' separator of the table keys, in the same and in another
// database - and returns them; an operation on (db, c1, p1) must leave every one of them alone.
func c08Foreign(w *ChannelWriter, db string) []c08Rec {
	var recs []c08Rec
	add := func(level int, ck, dk string) {
		for _, k := range []string{ck, dk} {
			v := uint64(7000 + len(recs))
			c08Table(w, level).Store(k, v)
			recs = append(recs, c08Rec{level, k, v})
		}
	}
	for _, d := range []string{db, db + "_2", "x"} {
		if d != db {
			ck, dk := util.GetDBInfoKeys(d)
			add(0, ck, dk)
		}
		for _, c := range []string{c08Coll, c08Coll + "_v2", "c"} {
			if d != db || c != c08Coll {
				ck, dk := util.GetCollectionInfoKeys(c, d)
				add(1, ck, dk)
			}
			for _, pn := range []string{c08Part, c08Part + "_b", "p"} {
				if d != db || c != c08Coll || pn != c08Part {
					ck, dk := util.GetPartitionInfoKeys(pn, c, d)
					add(2, ck, dk)
				}
			}
		}
	}
	return recs
}

func c08ForeignIntact(w *ChannelWriter, recs []c08Rec) bool {
	ok := true
	for _, r := range recs {
		v, has := c08Table(w, r.level).Load(r.key)
		ok = vAnd(ok, vAnd(has, v == r.val))
	}
	return ok
}

// c08Seed fills the writer's tables with an arbitrary recorded state.
func c08Seed(w *ChannelWriter, db string, use [3]bool) {
	for l := 0; l < 3; l++ {
		if !use[l] {
			continue
		}
		ck, dk := c08Keys(l, db)
		if vBool("seed.cok") {
			c08Table(w, l).Store(ck, vU64("seed.ctime"))
		}
		if vBool("seed.dok") {
			c08Table(w, l).Store(dk, vU64("seed.dtime"))
		}
	}
}

func c08Snapshot(w *ChannelWriter, db string) *c08Tab {
	t := &c08Tab{}
	for l := 0; l < 3; l++ {
		ck, dk := c08Keys(l, db)
		t.ct[l], t.cok[l] = c08Table(w, l).Load(ck)
		t.dt[l], t.dok[l] = c08Table(w, l).Load(dk)
	}
	return t
}

// c08RefWait is the reference cascade (database -> collection -> partition).
// It updates tab the way a successful probe is allowed to (create = drop+1).
func c08RefWait(tab *c08Tab, use [3]bool, ts uint64, probeOK [3]bool) (skip bool, fail bool) {
	for l := 0; l < 3; l++ {
		if !use[l] {
			continue
		}
		s := c08Ref(ts, tab.ct[l], tab.dt[l], tab.cok[l], tab.dok[l])
		if s == InfoStateUnknown {
			if !probeOK[l] {
				return false, true
			}
			d := uint64(0)
			if tab.dok[l] {
				d = tab.dt[l]
			}
			tab.cok[l], tab.ct[l] = true, d+1
			s = InfoStateCreated
		}
		if s == InfoStateDropped {
			return true, false
		}
	}
	return false, false
}

func c08SameTab(a, b *c08Tab) bool {
	ok := true
	for l := 0; l < 3; l++ {
		ok = vAnd(ok, a.cok[l] == b.cok[l])
		ok = vAnd(ok, a.dok[l] == b.dok[l])
		ok = vAnd(ok, vImplies(a.cok[l], a.ct[l] == b.ct[l]))
		ok = vAnd(ok, vImplies(a.dok[l], a.dt[l] == b.dt[l]))
	}
	return ok
}

func c08Probes(h *wHandler, probeOK [3]bool) {
	h.onResult = func(kind string, n int) error {
		ok := true
		switch kind {
		case "DescribeDatabase":
			ok = probeOK[0]
		case "DescribeCollection":
			ok = probeOK[1]
		case "DescribePartition":
			ok = probeOK[2]
		}
		if !ok {
			return errDownstream
		}
		return nil
	}
}

// c08Levels: which levels WaitObjReady consults for (db, coll, part).
func c08Levels(db, coll, part string) [3]bool {
	return [3]bool{db != "" && db != util.DefaultDbName, coll != "", coll != "" && part != ""}
}

// VerifC08_Cascade: WaitObjReady on arbitrary recorded tables == reference.
func VerifC08_Cascade() {
	dbs := []string{"", util.DefaultDbName, c08DB}
	db := dbs[vChoice("db", 3)]
	coll, part := "", ""
	switch vChoice("depth", 3) {
	case 1:
		coll = c08Coll
	case 2:
		coll, part = c08Coll, c08Part
	}
	use := c08Levels(db, coll, part)
	h := newWHandler()
	w := wNewWriter(h, &wMeta{}, nil, "milvus", "")
	c08Seed(w, db, use)
	probeOK := [3]bool{vBool("probe.db"), vBool("probe.coll"), vBool("probe.part")}
	c08Probes(h, probeOK)
	ts := vU64("ts")
	ref := c08Snapshot(w, db)
	wantSkip, wantFail := c08RefWait(ref, use, ts, probeOK)

	skip, err := w.WaitObjReady(context.Background(), db, coll, part, ts)

	vAssert((err != nil) == wantFail, "C08.cascade-error-iff-unknown-and-probe-fails")
	vAssert(skip == wantSkip, "C08.cascade-skip-iff-dead-incarnation")
	vAssert(c08SameTab(c08Snapshot(w, db), ref), "C08.cascade-tables-only-move-as-allowed")
	vAssert(len(h.nonProbeCalls()) == 0, "C08.cascade-no-downstream-mutation")
	vReach("end")
}

// VerifC08_Kafka: for a non-milvus downstream readiness is not consulted.
func VerifC08_Kafka() {
	h := newWHandler()
	w := wNewWriter(h, &wMeta{}, nil, "kafka", "")
	c08Seed(w, c08DB, [3]bool{true, true, true})
	skip, err := w.WaitObjReady(context.Background(), c08DB, c08Coll, c08Part, vU64("ts"))
	vAssert(!skip && err == nil && len(h.calls) == 0, "C08.non-milvus-never-skips")
	vReach("end")
}

// ---- per-operation check ----

type c08Op struct {
	kind      string
	depth     int  // 0 db, 1 collection, 2 partition level consulted
	isEvent   bool // API event (else op message)
	afterSkip bool // the op re-checks after a failing downstream call
	drops     int  // level whose drop time the op records on success (-1 none)
}

var c08Ops = []c08Op{
	{"CreateIndex", 1, false, true, -1},
	{"DropIndex", 1, false, true, -1},
	{"AlterIndex", 1, false, false, -1},
	{"LoadCollection", 1, false, true, -1},
	{"ReleaseCollection", 1, false, true, -1},
	{"LoadPartitions", 2, false, true, -1},
	{"ReleasePartitions", 2, false, true, -1},
	{"Flush", 1, false, true, -1},
	{"CreateCollection", 0, true, false, -1},
	{"DropCollection", 0, true, false, 1},
	{"CreatePartition", 1, true, true, -1},
	{"DropPartition", 1, true, true, 2},
}

func c08Run(w *ChannelWriter, op c08Op, db string, ts uint64) error {
	ctx := context.Background()
	if op.isEvent {
		ev := &api.ReplicateAPIEvent{
			CollectionInfo: &pb.CollectionInfo{Schema: &schemapb.CollectionSchema{Name: c08Coll}},
			PartitionInfo:  &pb.PartitionInfo{PartitionName: c08Part},
			ReplicateInfo:  &commonpb.ReplicateInfo{IsReplicate: true, MsgTimestamp: ts},
			ReplicateParam: api.ReplicateParam{Database: db},
			TaskID:         "task", MsgID: "msg",
		}
		switch op.kind {
		case "CreateCollection":
			ev.EventType = api.ReplicateCreateCollection
		case "DropCollection":
			ev.EventType = api.ReplicateDropCollection
		case "CreatePartition":
			ev.EventType = api.ReplicateCreatePartition
		case "DropPartition":
			ev.EventType = api.ReplicateDropPartition
		}
		return w.HandleReplicateAPIEvent(ctx, ev)
	}
	base := func(t commonpb.MsgType) *commonpb.MsgBase { return &commonpb.MsgBase{MsgType: t} }
	var m msgstream.TsMsg
	switch op.kind {
	case "CreateIndex":
		m = &msgstream.CreateIndexMsg{BaseMsg: wBase(ts, 0), CreateIndexRequest: &milvuspb.CreateIndexRequest{Base: base(commonpb.MsgType_CreateIndex), DbName: db, CollectionName: c08Coll, FieldName: "f", IndexName: "i"}}
	case "DropIndex":
		m = &msgstream.DropIndexMsg{BaseMsg: wBase(ts, 0), DropIndexRequest: &milvuspb.DropIndexRequest{Base: base(commonpb.MsgType_DropIndex), DbName: db, CollectionName: c08Coll, FieldName: "f", IndexName: "i"}}
	case "AlterIndex":
		m = &msgstream.AlterIndexMsg{BaseMsg: wBase(ts, 0), AlterIndexRequest: &milvuspb.AlterIndexRequest{Base: base(commonpb.MsgType_AlterIndex), DbName: db, CollectionName: c08Coll, IndexName: "i"}}
	case "LoadCollection":
		m = &msgstream.LoadCollectionMsg{BaseMsg: wBase(ts, 0), LoadCollectionRequest: &milvuspb.LoadCollectionRequest{Base: base(commonpb.MsgType_LoadCollection), DbName: db, CollectionName: c08Coll}}
	case "ReleaseCollection":
		m = &msgstream.ReleaseCollectionMsg{BaseMsg: wBase(ts, 0), ReleaseCollectionRequest: &milvuspb.ReleaseCollectionRequest{Base: base(commonpb.MsgType_ReleaseCollection), DbName: db, CollectionName: c08Coll}}
	case "LoadPartitions":
		m = &msgstream.LoadPartitionsMsg{BaseMsg: wBase(ts, 0), LoadPartitionsRequest: &milvuspb.LoadPartitionsRequest{Base: base(commonpb.MsgType_LoadPartitions), DbName: db, CollectionName: c08Coll, PartitionNames: []string{c08Part}}}
	case "ReleasePartitions":
		m = &msgstream.ReleasePartitionsMsg{BaseMsg: wBase(ts, 0), ReleasePartitionsRequest: &milvuspb.ReleasePartitionsRequest{Base: base(commonpb.MsgType_ReleasePartitions), DbName: db, CollectionName: c08Coll, PartitionNames: []string{c08Part}}}
	case "Flush":
		m = &msgstream.FlushMsg{BaseMsg: wBase(ts, 0), FlushRequest: &milvuspb.FlushRequest{Base: base(commonpb.MsgType_Flush), DbName: db, CollectionNames: []string{c08Coll}}}
	}
	_, err := w.HandleOpMessagePack(ctx, wOpPack(ts, m))
	return err
}

// VerifC08_Op: every operation kind against arbitrary recorded tables, with a
// possibly failing downstream call during which a concurrent drop may be
// recorded (that is what the post-failure re-check exists for).
func VerifC08_Op() {
	op := c08Ops[vChoice("op", len(c08Ops))]
	dbs := []string{"", c08DB}
	db := dbs[vChoice("db", 2)]
	use := [3]bool{db != "", op.depth >= 1, op.depth >= 2}
	h := newWHandler()
	meta := &wMeta{}
	w := wNewWriter(h, meta, nil, "milvus", "")
	c08Seed(w, db, use)
	foreign := c08Foreign(w, db)
	probeOK := [3]bool{vBool("probe.db"), vBool("probe.coll"), vBool("probe.part")}
	opFails := vBool("downstreamFails")
	ts := vU64("ts")
	vAssume(ts < 1<<62)
	ref := c08Snapshot(w, db)
	wantSkip, wantFail := c08RefWait(ref, use, ts, probeOK)
	afterSkip, afterFail := false, false
	injected := false
	h.onResult = func(kind string, n int) error {
		switch kind {
		case "DescribeDatabase":
			if !probeOK[0] {
				return errDownstream
			}
			return nil
		case "DescribeCollection":
			if !probeOK[1] {
				return errDownstream
			}
			return nil
		case "DescribePartition":
			if !probeOK[2] {
				return errDownstream
			}
			return nil
		}
		if !opFails {
			return nil
		}
		// the call fails; meanwhile another stream may have replayed a drop of the
		// consulted object (recorded exactly as dropCollection/dropPartition do)
		if vBool("concurrentDrop") {
			lvl := op.depth
			if op.kind == "CreateCollection" || op.kind == "DropCollection" {
				lvl = 0
			}
			if use[lvl] {
				_, dk := c08Keys(lvl, db)
				dts := vU64("concurrentDropTs")
				c08Table(w, lvl).Store(dk, dts)
				ref.dok[lvl], ref.dt[lvl] = true, dts
				injected = true
			}
		}
		if op.afterSkip {
			afterSkip, afterFail = c08RefWait(ref, use, ts, probeOK)
		}
		return errDownstream
	}

	err := c08Run(w, op, db, ts)

	calls := h.nonProbeCalls()
	switch {
	case wantFail:
		vAssert(err != nil, "C08.unknown-and-failing-probe-is-an-error")
		vAssert(len(calls) == 0, "C08.no-call-when-readiness-unknown")
	case wantSkip:
		vAssert(err == nil, "C08.dead-incarnation-skipped-without-error")
		vAssert(len(calls) == 0, "C08.dead-incarnation-not-touched")
	default:
		vAssert(len(calls) == 1 && calls[0].kind == op.kind, "C08.live-incarnation-gets-exactly-one-call")
		if !opFails {
			vAssert(err == nil, "C08.successful-call-returns-nil")
		} else if op.afterSkip {
			if afterSkip {
				vAssert(err == nil, "C08.failed-call-on-object-dropped-meanwhile-is-skipped")
			} else {
				vAssert(err != nil, "C08.failed-call-on-live-object-is-an-error")
			}
		} else if !injected {
			// ops without a post-failure re-check: only the unambiguous case is asserted
			vAssert(err != nil, "C08.failed-call-on-live-object-is-an-error")
		}
		_ = afterFail
		if op.drops >= 0 && err == nil {
			_, dk := c08Keys(op.drops, db)
			got, ok := c08Table(w, op.drops).Load(dk)
			vAssert(vAnd(ok, got == ts), "C08.drop-time-recorded")
			ref.dok[op.drops], ref.dt[op.drops] = true, ts
		}
	}
	vAssert(c08SameTab(c08Snapshot(w, db), ref), "C08.tables-only-move-as-allowed")
	vAssert(c08ForeignIntact(w, foreign), "C08.records-of-other-objects-untouched")
	vReach("end")
}
