//go:build verif

package writer

// C20 harness: replicated DDL/RBAC requests keep their identity fields and the
// replication stamp. Real code: HandleOpMessagePack, HandleReplicateAPIEvent,
// initOPMessageFuncs/initAPIEventFuncs, every per-kind builder, UpdateMsgBase.

import (
	"context"

	"github.com/milvus-io/milvus-proto/go-api/v2/commonpb"
	"github.com/milvus-io/milvus-proto/go-api/v2/msgpb"
	"github.com/milvus-io/milvus-proto/go-api/v2/schemapb"
	"github.com/milvus-io/milvus/pkg/mq/msgstream"

	"github.com/zilliztech/milvus-cdc/core/api"
	"github.com/zilliztech/milvus-cdc/core/util"
)

func c20Str(tag string, L int) string { return vStr(tag, L) }

func c20Src(L int) *wSrc {
	s := &wSrc{
		db: c20Str("src.db", L), coll: c20Str("src.coll", L),
		index: c20Str("src.index", L), field: c20Str("src.field", L),
		extraK: []string{c20Str("src.extraK", L), c20Str("src.extraK", L)}, extraV: []string{c20Str("src.extraV", L), c20Str("src.extraV", L)},
		replica: vI32("src.replica"),
		user:    c20Str("src.user", L), password: c20Str("src.password", L), oldPassword: c20Str("src.oldPassword", L), newPassword: c20Str("src.newPassword", L),
		role: c20Str("src.role", L), urType: vI32("src.userRoleType"),
		privObject: c20Str("src.privObject", L), privObjName: c20Str("src.privObjName", L), privName: c20Str("src.privName", L), privDB: c20Str("src.privDB", L),
		privType: vI32("src.privType"), grantor: c20Str("src.grantor", L),
		propsK: []string{c20Str("src.propK", L)}, propsV: []string{c20Str("src.propV", L)},
	}
	vAssume(s.coll != "")
	if vBool("src.hasStaleReplicateInfo") {
		s.stale = &commonpb.ReplicateInfo{IsReplicate: vBool("src.stale.isReplicate"), MsgTimestamp: vU64("src.stale.msgTimestamp"), ReplicateID: vStr("src.stale.replicateID", 2)}
	}
	return s
}

func c20Stamp(b *commonpb.MsgBase, ts uint64, id string) {
	vAssert(b != nil && b.ReplicateInfo != nil, id+".stamp-present")
	if b != nil && b.ReplicateInfo != nil {
		vAssert(vAnd(b.ReplicateInfo.IsReplicate, b.ReplicateInfo.MsgTimestamp == ts), id+".marked-replicate-with-source-timestamp")
	}
}

func c20SameKV(got []*commonpb.KeyValuePair, ks, vs []string) bool {
	if len(got) != len(ks) {
		return false
	}
	ok := true
	for i := range ks {
		ok = vAnd(ok, vAnd(got[i].GetKey() == ks[i], got[i].GetValue() == vs[i]))
	}
	return ok
}

func c20SameStrs(a, b []string) bool {
	if len(a) != len(b) {
		return false
	}
	ok := true
	for i := range a {
		ok = vAnd(ok, a[i] == b[i])
	}
	return ok
}

// c20Pack: end-position timestamp, pack ts and message ts are three different
// symbolic values: the stamp must come from the end position.
func c20Pack(endPosTs, packTs uint64, msgs ...msgstream.TsMsg) *msgstream.MsgPack {
	return &msgstream.MsgPack{
		BeginTs: vU64("pack.beginTs"), EndTs: packTs, Msgs: msgs,
		StartPositions: []*msgpb.MsgPosition{{ChannelName: "rpc", MsgID: []byte("start"), Timestamp: vU64("pack.startPosTs")}},
		EndPositions:   []*msgpb.MsgPosition{{ChannelName: "rpc", MsgID: []byte("end"), Timestamp: endPosTs}},
	}
}

// VerifC20_OpMessages: the 18 op-message kinds, all identity fields symbolic.
func VerifC20_OpMessages() {
	L := vParam("L", 3)
	kind := wOpKinds[vChoice("op", len(wOpKinds))]
	s := c20Src(L)
	// partition list with up to P members; dropped members decided by a symbolic table
	P := vParam("P", 2)
	names := []string{"p0", "p1", "p2", "p3"}
	np := 1 + vChoice("nparts", P)
	s.parts = append([]string{}, names[:np]...)
	h := newWHandler()
	h.onResult = func(string, int) error { return nil }
	w := wNewWriter(h, &wMeta{}, nil, "milvus", vStr("replicateID", 2))
	msgTs, endPosTs, packTs := vU64("msg.ts"), vU64("pack.endPosTs"), vU64("pack.endTs")
	vAssume(msgTs >= 1) // hybrid timestamps are never 0 (a probe success records create time 1 when no drop is known)
	var wantParts []string
	for _, p := range s.parts {
		dropped := false
		if vBool("part.dropRecorded") {
			dt := vU64("part.dropTime")
			_, dk := util.GetPartitionInfoKeys(p, s.coll, s.db)
			w.partitionInfos.Store(dk, dt)
			dropped = msgTs <= dt
		}
		if !dropped {
			wantParts = append(wantParts, p)
		}
	}
	msg := wBuildOp(kind, s, msgTs)
	id, err := w.HandleOpMessagePack(context.Background(), c20Pack(endPosTs, packTs, msg))
	calls := h.nonProbeCalls()
	listOp := kind == "LoadPartitions" || kind == "ReleasePartitions"
	if listOp && len(wantParts) == 0 {
		vAssert(err == nil && len(calls) == 0, "C20.all-partitions-dropped-is-a-skip")
		vReach("end")
		return
	}
	vAssert(err == nil, "C20.op-accepted")
	vAssert(string(id) == "end", "C20.returns-end-position-id")
	vAssert(len(calls) == 1 && calls[0].kind == kind, "C20.exactly-one-request-of-the-same-kind")
	if len(calls) != 1 {
		return
	}
	c := calls[0]
	wantDB := vIteStr(s.db == "", util.DefaultDbName, s.db)
	c20Stamp(c.base, endPosTs, "C20")
	switch p := c.param.(type) {
	case *api.CreateDatabaseParam:
		vAssert(p.GetDbName() == wantDB, "C20.CreateDatabase.name")
	case *api.DropDatabaseParam:
		vAssert(p.GetDbName() == wantDB, "C20.DropDatabase.name")
	case *api.AlterDatabaseParam:
		vAssert(p.GetDbName() == wantDB, "C20.AlterDatabase.name")
		vAssert(c20SameKV(p.GetProperties(), s.propsK, s.propsV), "C20.AlterDatabase.properties")
	case *api.FlushParam:
		vAssert(c20SameStrs(p.GetCollectionNames(), []string{s.coll}), "C20.Flush.collections")
	case *api.CreateIndexParam:
		vAssert(vAnd(p.GetCollectionName() == s.coll, vAnd(p.GetFieldName() == s.field, p.GetIndexName() == s.index)), "C20.CreateIndex.identity")
		vAssert(c20SameKV(p.GetExtraParams(), s.extraK, s.extraV), "C20.CreateIndex.params")
	case *api.DropIndexParam:
		vAssert(vAnd(p.GetCollectionName() == s.coll, vAnd(p.GetFieldName() == s.field, p.GetIndexName() == s.index)), "C20.DropIndex.identity")
	case *api.AlterIndexParam:
		vAssert(vAnd(p.GetCollectionName() == s.coll, p.GetIndexName() == s.index), "C20.AlterIndex.identity")
		vAssert(c20SameKV(p.GetExtraParams(), s.extraK, s.extraV), "C20.AlterIndex.params")
	case *api.LoadCollectionParam:
		vAssert(vAnd(p.GetCollectionName() == s.coll, p.GetReplicaNumber() == s.replica), "C20.LoadCollection.identity")
	case *api.ReleaseCollectionParam:
		vAssert(p.GetCollectionName() == s.coll, "C20.ReleaseCollection.identity")
	case *api.LoadPartitionsParam:
		vAssert(vAnd(p.GetCollectionName() == s.coll, p.GetReplicaNumber() == s.replica), "C20.LoadPartitions.identity")
		vAssert(c20SameStrs(p.GetPartitionNames(), wantParts), "C20.LoadPartitions.partitions-minus-dropped-in-order")
	case *api.ReleasePartitionsParam:
		vAssert(p.GetCollectionName() == s.coll, "C20.ReleasePartitions.identity")
		vAssert(c20SameStrs(p.GetPartitionNames(), wantParts), "C20.ReleasePartitions.partitions-minus-dropped-in-order")
	case *api.CreateUserParam:
		vAssert(vAnd(p.GetUsername() == s.user, p.GetPassword() == s.password), "C20.CreateUser.identity")
	case *api.DeleteUserParam:
		vAssert(p.GetUsername() == s.user, "C20.DeleteUser.identity")
	case *api.UpdateUserParam:
		vAssert(vAnd(p.GetUsername() == s.user, vAnd(p.GetOldPassword() == s.oldPassword, p.GetNewPassword() == s.newPassword)), "C20.UpdateUser.identity")
	case *api.CreateRoleParam:
		vAssert(p.GetEntity().GetName() == s.role, "C20.CreateRole.identity")
	case *api.DropRoleParam:
		vAssert(p.GetRoleName() == s.role, "C20.DropRole.identity")
	case *api.OperateUserRoleParam:
		vAssert(vAnd(vAnd(p.GetUsername() == s.user, p.GetRoleName() == s.role), int32(p.GetType()) == s.urType), "C20.OperateUserRole.identity")
	case *api.OperatePrivilegeParam:
		e := p.GetEntity()
		vAssert(vAnd(vAnd(e.GetRole().GetName() == s.role, e.GetObject().GetName() == s.privObject), vAnd(e.GetObjectName() == s.privObjName, e.GetDbName() == s.privDB)), "C20.OperatePrivilege.entity")
		vAssert(vAnd(vAnd(e.GetGrantor().GetUser().GetName() == s.grantor, e.GetGrantor().GetPrivilege().GetName() == s.privName), int32(p.GetType()) == s.privType), "C20.OperatePrivilege.grant")
	default:
		vAssert(false, "C20.unexpected-param-type")
	}
	vReach("end")
}

// VerifC20_Events: create/drop collection/partition events.
func VerifC20_Events() {
	L := vParam("L", 3)
	kind := wEventKinds[vChoice("event", len(wEventKinds))]
	s := c20Src(L)
	s.parts = []string{c20Str("src.part", L)}
	h := newWHandler()
	h.onResult = func(string, int) error { return nil }
	meta := &wMeta{}
	rid := vStr("replicateID", 2)
	w := wNewWriter(h, meta, nil, "milvus", rid)
	ts := vU64("event.ts")
	vAssume(ts >= 1)
	ev := wBuildEvent(kind, s, ts)
	ev.TaskID, ev.MsgID = c20Str("event.taskID", L), c20Str("event.msgID", L)
	shards, level := vI32("src.shards"), vI32("src.consistency")
	autoID := vBool("src.pk.autoID")
	dim := c20Str("src.dim", 3)
	if kind == "CreateCollection" {
		ev.CollectionInfo.ShardsNum = shards
		ev.CollectionInfo.ConsistencyLevel = commonpb.ConsistencyLevel(level)
		ev.CollectionInfo.Properties = wKV(s.propsK, s.propsV)
		ev.CollectionInfo.Schema = &schemapb.CollectionSchema{
			Name: s.coll, Description: c20Str("src.desc", L), EnableDynamicField: vBool("src.dynamic"),
			Fields: []*schemapb.FieldSchema{
				{FieldID: 100, Name: s.field, IsPrimaryKey: true, AutoID: autoID, DataType: schemapb.DataType_Int64},
				{FieldID: 101, Name: s.index, DataType: schemapb.DataType_FloatVector, TypeParams: wKV([]string{"dim"}, []string{dim})},
			},
		}
	}
	err := w.HandleReplicateAPIEvent(context.Background(), ev)
	vAssert(err == nil, "C20.event-accepted")
	calls := h.nonProbeCalls()
	vAssert(len(calls) == 1 && calls[0].kind == kind, "C20.exactly-one-request-of-the-same-kind")
	if len(calls) != 1 {
		return
	}
	c := calls[0]
	c20Stamp(c.base, ts, "C20.event")
	switch p := c.param.(type) {
	case *api.CreateCollectionParam:
		vAssert(p.Schema != nil && p.Schema.CollectionName == s.coll, "C20.CreateCollection.name")
		vAssert(vAnd(p.ShardsNum == shards, int32(p.ConsistencyLevel) == level), "C20.CreateCollection.shards-and-consistency")
		vAssert(vAnd(p.Schema.Description == ev.CollectionInfo.Schema.Description, p.Schema.EnableDynamicField == ev.CollectionInfo.Schema.EnableDynamicField), "C20.CreateCollection.schema-attributes")
		vAssert(len(p.Schema.Fields) == 2, "C20.CreateCollection.field-count")
		if len(p.Schema.Fields) == 2 {
			f0, f1 := p.Schema.Fields[0], p.Schema.Fields[1]
			vAssert(vAnd(vAnd(f0.Name == s.field, f0.ID == 100), vAnd(f0.PrimaryKey, f0.AutoID == autoID)), "C20.CreateCollection.pk-field")
			vAssert(int32(f0.DataType) == int32(schemapb.DataType_Int64) && int32(f1.DataType) == int32(schemapb.DataType_FloatVector), "C20.CreateCollection.field-types")
			vAssert(vAnd(f1.Name == s.index, f1.TypeParams["dim"] == dim), "C20.CreateCollection.vector-field")
		}
		// properties: the source ones (+ replicate.id when configured)
		if rid == "" {
			vAssert(c20SameKV(p.Properties, s.propsK, s.propsV), "C20.CreateCollection.properties")
		} else {
			vAssert(c20SameKV(p.Properties, append(append([]string{}, s.propsK...), "replicate.id"), append(append([]string{}, s.propsV...), rid)), "C20.CreateCollection.properties-with-replicate-id")
		}
	case *api.DropCollectionParam:
		vAssert(p.CollectionName == s.coll, "C20.DropCollection.name")
		vAssert(len(meta.removed) == 1 && vAnd(meta.removed[0][0] == ev.TaskID, meta.removed[0][1] == ev.MsgID), "C20.DropCollection.pending-drop-removed")
	case *api.CreatePartitionParam:
		vAssert(vAnd(p.CollectionName == s.coll, p.PartitionName == s.parts[0]), "C20.CreatePartition.identity")
	case *api.DropPartitionParam:
		vAssert(vAnd(p.CollectionName == s.coll, p.PartitionName == s.parts[0]), "C20.DropPartition.identity")
		vAssert(len(meta.removed) == 1 && vAnd(meta.removed[0][0] == ev.TaskID, meta.removed[0][1] == ev.MsgID), "C20.DropPartition.pending-drop-removed")
	default:
		vAssert(false, "C20.unexpected-param-type")
	}
	vReach("end")
}

type c20Unknown struct{ msgstream.TimeTickMsg }

// VerifC20_Malformed: packs with no message, several messages or an
// unsupported type are rejected with an error and nothing is applied.
func VerifC20_Malformed() {
	s := c20Src(2)
	s.parts = []string{"p0"}
	h := newWHandler()
	h.onResult = func(string, int) error { return nil }
	w := wNewWriter(h, &wMeta{}, nil, "milvus", "")
	ts := vU64("ts")
	var msgs []msgstream.TsMsg
	switch vChoice("shape", 4) {
	case 0: // no message
	case 1: // two supported messages
		msgs = []msgstream.TsMsg{wBuildOp(wOpKinds[vChoice("a", len(wOpKinds))], s, ts), wBuildOp(wOpKinds[vChoice("b", len(wOpKinds))], s, ts)}
	case 2: // a DML / tick message on the op path
		msgs = []msgstream.TsMsg{wBuildDML([]string{"Insert", "Delete", "TimeTick", "DropCollection"}[vChoice("dml", 4)], s, ts)}
	case 3: // a type with no handler at all
		t := vI32("unknownType")
		_, known := w.opMessageFuncs[commonpb.MsgType(t)]
		vAssume(!known)
		tm := &msgstream.TimeTickMsg{BaseMsg: wBase(ts, 0), TimeTickMsg: &msgpb.TimeTickMsg{Base: &commonpb.MsgBase{MsgType: commonpb.MsgType(t)}}}
		msgs = []msgstream.TsMsg{tm}
	}
	_, err := w.HandleOpMessagePack(context.Background(), c20Pack(ts, ts, msgs...))
	vAssert(err != nil, "C20.malformed-pack-rejected")
	vAssert(len(h.calls) == 0, "C20.malformed-pack-not-partially-applied")
	// an event of unknown type
	ev := wBuildEvent("CreateCollection", s, ts)
	et := vI32("unknownEvent")
	_, knownEv := w.apiEventFuncs[api.ReplicateAPIEventType(et)]
	vAssume(!knownEv)
	ev.EventType = api.ReplicateAPIEventType(et)
	vAssert(w.HandleReplicateAPIEvent(context.Background(), ev) != nil, "C20.unknown-event-rejected")
	vAssert(len(h.calls) == 0, "C20.unknown-event-not-applied")
	vReach("end")
}

// VerifC20_ConcurrentOps: the op packs of two tasks replicating to one target are handled by
// the same writer concurrently. Task A's request is held inside the writer (at its readiness
// probe, before the downstream request is built and sent) while task B's pack is handled
// completely; afterwards each downstream request must still carry ITS OWN pack's timestamp.
func VerifC20_ConcurrentOps() {
	kinds := []string{"CreateIndex", "DropIndex", "LoadCollection", "ReleaseCollection", "Flush"}
	ka, kb := kinds[vChoice("a.op", len(kinds))], kinds[vChoice("b.op", len(kinds))]
	vAssume(ka != kb)
	sa := &wSrc{db: "db", coll: "ca", index: "i", field: "f"}
	sb := &wSrc{db: "db", coll: "cb", index: "i", field: "f"}
	h := newWHandler()
	w := wNewWriter(h, &wMeta{}, nil, "milvus", "")
	tsA, tsB := vU64("a.ts"), vU64("b.ts")
	vAssume(vAnd(vAnd(tsA >= 1, tsA < 1<<62), vAnd(tsB >= 1, tsB < 1<<62)))
	gate, held := make(chan struct{}), false
	h.onResult = func(kind string, n int) error {
		if kind == "DescribeCollection" && !held {
			held = true
			<-gate // task A's readiness probe is in flight
		}
		return nil
	}
	doneA := make(chan error, 1)
	go func() {
		_, err := w.HandleOpMessagePack(context.Background(), c20Pack(tsA, tsA, wBuildOp(ka, sa, tsA)))
		doneA <- err
	}()
	vQuiesce()
	vAssert(held, "C20.concurrent.first-op-is-waiting-inside-the-writer")
	_, errB := w.HandleOpMessagePack(context.Background(), c20Pack(tsB, tsB, wBuildOp(kb, sb, tsB)))
	close(gate)
	errA := <-doneA
	vAssert(errA == nil && errB == nil, "C20.concurrent.both-ops-accepted")
	ca, cb := h.callsOf(ka), h.callsOf(kb)
	vAssert(len(ca) == 1 && len(cb) == 1, "C20.concurrent.exactly-one-request-per-op")
	if len(ca) == 1 && len(cb) == 1 {
		c20Stamp(ca[0].base, tsA, "C20.concurrent.first-op")
		c20Stamp(cb[0].base, tsB, "C20.concurrent.second-op")
	}
	vReach("end")
}
