//go:build verif

package server

// C11 harness: the task lifecycle is a consistent state machine with complete
// cleanup. Real code: Create, Pause, Resume, Delete, Get, List, startInternal,
// newReplicateEntity (with the goroutines it starts), pauseTaskWithReason, delete,
// ReloadTask, store.{UpdateTaskState, DeleteTask, GetTaskInfo, GetAllTaskInfo},
// metrics.TaskNumMetric.{Add, UpdateState, Delete}, request.GetTask.

import (
	"github.com/zilliztech/milvus-cdc/server/metrics"
	"github.com/zilliztech/milvus-cdc/server/model"
	"github.com/zilliztech/milvus-cdc/server/model/meta"
	"github.com/zilliztech/milvus-cdc/server/model/request"
)

const (
	c11T1 = "http://t1:19530"
	c11T2 = "http://t2:19530"
)

type c11Task struct {
	id      string
	target  string
	coll    string
	exists  bool
	state   meta.TaskState
	noAuto  bool
	created bool
}

func c11Gauge(id string) (meta.TaskState, int) {
	n := 0
	st := meta.TaskState(-1)
	for _, s := range []meta.TaskState{meta.TaskStateInitial, meta.TaskStateRunning, meta.TaskStatePaused} {
		if metrics.TaskNumVec.VerifHas(id, s) {
			n++
			st = s
		}
	}
	return st, n
}

// c11Check: the four views agree with the expected state, and cleanup is complete.
func c11Check(w *sWorld, cdc *MetaCDC, tasks []*c11Task, tag string) {
	srv := &CDCServer{api: cdc, serverConfig: cdc.config}
	for _, t := range tasks {
		if !t.created {
			continue
		}
		mem, inMem := cdc.cdcTasks.data[t.id]
		var stored *meta.TaskInfo
		for _, i := range w.f.infos {
			if i.TaskID == t.id {
				stored = i
			}
		}
		isErr, _, resp := c18Do(srv, request.Get, &request.GetRequest{TaskID: t.id})
		gst, gn := c11Gauge(t.id)
		if !t.exists {
			vAssert(!inMem, "C11.deleted-task-not-in-memory"+tag)
			vAssert(stored == nil, "C11.deleted-task-not-persisted"+tag)
			vAssert(isErr, "C11.deleted-task-not-reported-by-get"+tag)
			vAssert(gn == 0, "C11.deleted-task-not-in-a-gauge"+tag)
			npos := 0
			for _, p := range w.f.poss {
				if p.TaskID == t.id {
					npos++
				}
			}
			vAssert(npos == 0, "C11.delete-removes-all-checkpoints"+tag)
		} else {
			vAssert(inMem && stored != nil && !isErr, "C11.live-task-visible-in-memory-store-and-api"+tag)
			if inMem && stored != nil && !isErr {
				vAssert(t.state == meta.TaskStateRunning || t.state == meta.TaskStatePaused, "C11.state-is-running-or-paused"+tag)
				vAssert(mem.State == t.state, "C11.in-memory-state-is-the-expected-state"+tag)
				vAssert(stored.State == t.state, "C11.persisted-state-is-the-expected-state"+tag)
				vAssert(resp.(*request.GetResponse).Task.State == t.state.String(), "C11.api-state-is-the-expected-state"+tag)
				vAssert(gn == 1 && gst == t.state, "C11.gauge-state-is-the-expected-state"+tag)
			}
		}
		// no active readers unless running
		running := t.exists && t.state == meta.TaskStateRunning
		if running {
			vAssert(w.activeReaders(t.id) == 2, "C11.running-task-has-its-two-readers"+tag)
		} else {
			vAssert(w.activeReaders(t.id) == 0, "C11.paused-or-deleted-task-has-no-active-reader"+tag)
		}
	}
	// per-target replication resources
	for _, tgt := range []string{c11T1, c11T2} {
		nRun := 0
		for _, t := range tasks {
			if t.created && t.exists && t.state == meta.TaskStateRunning && t.target == tgt {
				nRun++
			}
		}
		ent, ok := cdc.replicateEntityMap.data[tgt]
		if nRun == 0 {
			vAssert(!ok, "C11.target-resources-released-when-no-task-runs"+tag)
		} else {
			vAssert(ok, "C11.target-resources-exist-while-a-task-runs"+tag)
			if ok {
				vAssert(int(ent.refCnt.Load()) == nRun, "C11.reference-count-equals-running-tasks"+tag)
				vAssert(ent.taskQuitFuncs.Len() == nRun, "C11.one-quit-function-per-running-task"+tag)
				m := ent.channelManager.(*sChanMgr)
				vAssert(m.ctx != nil && m.ctx.Err() == nil, "C11.shared-context-alive-while-a-task-runs"+tag)
			}
		}
	}
	// every replication context that is no longer registered has been cancelled (its
	// background goroutines end)
	for _, m := range w.mgrs {
		reg := false
		for _, ent := range cdc.replicateEntityMap.data {
			if ent.channelManager == m {
				reg = true
			}
		}
		if !reg && m.ctx != nil {
			vAssert(m.ctx.Err() != nil, "C11.unregistered-replication-context-is-cancelled"+tag)
		}
	}
}

func c11Create(w *sWorld, srv *CDCServer, t *c11Task) bool {
	req := &request.CreateRequest{
		MilvusConnectParam: model.MilvusConnectParam{URI: t.target},
		CollectionInfos:    []model.CollectionInfo{{Name: t.coll}},
		DisableAutoStart:   t.noAuto,
	}
	isErr, _, resp := c18Do(srv, request.Create, req)
	if isErr {
		return false
	}
	t.id = resp.(*request.CreateResponse).TaskID
	t.exists, t.created, t.state = true, true, meta.TaskStateRunning
	return true
}

// VerifC11_History: two tasks (same or different target), K lifecycle calls with store
// faults, the four views and the cleanup conditions after every call, then a restart.
func VerifC11_History() {
	K := vParam("K", 2)
	w := sNewWorld()
	srv := &CDCServer{api: w.cdc, serverConfig: w.cdc.config}
	// the gauges are process-wide: start from empty ones (several replays share a process)
	for _, id := range []string{"task-1", "task-2"} {
		for _, s := range []meta.TaskState{meta.TaskStateInitial, meta.TaskStateRunning, meta.TaskStatePaused} {
			metrics.TaskNumVec.Delete(id, s)
		}
	}
	a := &c11Task{target: c11T1, coll: "a", noAuto: vBool("a.disableAutoStart")}
	b := &c11Task{target: c11T1, coll: "b"}
	if vBool("b.onOtherTarget") {
		b.target = c11T2
	}
	tasks := []*c11Task{a, b}
	vAssume(c11Create(w, srv, a))
	vAssume(c11Create(w, srv, b))
	c11Check(w, w.cdc, tasks, ":after-create")
	for k := 0; k < K; k++ {
		t := tasks[vChoice("task", 2)]
		w.f.faults, w.f.nFault = vBool("storeMayFail"), 0
		var isErr bool
		switch vChoice("call", 3) {
		case 0:
			isErr, _, _ = c18Do(srv, request.Pause, &request.PauseRequest{TaskID: t.id})
			legal := t.exists && t.state == meta.TaskStateRunning
			vAssert(vImplies(!legal, isErr), "C11.pause-only-from-running")
			if !isErr {
				t.state = meta.TaskStatePaused
			}
		case 1:
			isErr, _, _ = c18Do(srv, request.Resume, &request.ResumeRequest{TaskID: t.id})
			legal := t.exists && t.state == meta.TaskStatePaused
			vAssert(vImplies(!legal, isErr), "C11.resume-only-from-paused")
			if !isErr {
				t.state = meta.TaskStateRunning
			}
		case 2:
			isErr, _, _ = c18Do(srv, request.Delete, &request.DeleteRequest{TaskID: t.id})
			vAssert(vImplies(!t.exists, isErr), "C11.delete-of-unknown-task-fails")
			if !isErr {
				t.exists = false
			}
		}
		faulted := w.f.nFault > 0
		w.f.faults = false
		vAssert(vImplies(!faulted && t.exists, true), "C11.noop")
		c11Check(w, w.cdc, tasks, ":after-call")
	}
	// ---- restart at a quiescent point: a fresh server reloads the store ----
	for _, t := range tasks {
		for _, s := range []meta.TaskState{meta.TaskStateInitial, meta.TaskStateRunning, meta.TaskStatePaused} {
			metrics.TaskNumVec.Delete(t.id, s)
		}
	}
	nrd := len(w.collRds)
	w.collRds, w.chanRds = nil, nil
	_ = nrd
	cdc2 := sNewCDC(w.f)
	// the start of the reloaded tasks may fail (reader construction fails for every task)
	startFails := vBool("reload.startFails")
	w.readerFails = startFails
	cdc2.ReloadTask()
	w.readerFails = false
	for _, t := range tasks {
		if !t.exists {
			continue
		}
		if t.noAuto || startFails {
			t.state = meta.TaskStatePaused // a task whose start fails is paused with the reason
		} else {
			t.state = meta.TaskStateRunning
		}
	}
	w.mgrs = w.mgrs[:0]
	for _, ent := range cdc2.replicateEntityMap.data {
		w.mgrs = append(w.mgrs, ent.channelManager.(*sChanMgr))
	}
	c11Check(w, cdc2, tasks, ":after-restart")
	vReach("end")
}

// VerifC11_RestartAfterOutage: a create that runs into a store outage (up to two failing
// store calls) is answered with an error but may leave its task record behind - in state
// Initial when the start failed and the roll-back failed too. After a restart EVERY
// persisted task is reloaded: the left-over task runs (or is paused when its start fails)
// and the four views agree on it, exactly like for the regularly created task.
func VerifC11_RestartAfterOutage() {
	w := sNewWorld()
	srv := &CDCServer{api: w.cdc, serverConfig: w.cdc.config}
	for _, id := range []string{"task-1", "task-2"} {
		for _, s := range []meta.TaskState{meta.TaskStateInitial, meta.TaskStateRunning, meta.TaskStatePaused} {
			metrics.TaskNumVec.Delete(id, s)
		}
	}
	a := &c11Task{target: c11T1, coll: "a"}
	vAssume(c11Create(w, srv, a))
	c := &c11Task{target: c11T1, coll: "c"}
	if vBool("c.onOtherTarget") {
		c.target = c11T2
	}
	w.f.faults, w.f.nFault, w.f.maxF = true, 0, 2
	ok := c11Create(w, srv, c)
	w.f.faults, w.f.maxF = false, 1
	if !ok {
		// the request was refused; whatever record it left behind is a persisted task
		for _, i := range w.f.infos {
			if i.TaskID != a.id {
				c.id, c.created, c.exists, c.state = i.TaskID, true, true, i.State
			}
		}
	}
	vObserve("leftover", c.created && !ok)
	tasks := []*c11Task{a, c}
	// ---- restart ----
	for _, t := range tasks {
		for _, s := range []meta.TaskState{meta.TaskStateInitial, meta.TaskStateRunning, meta.TaskStatePaused} {
			metrics.TaskNumVec.Delete(t.id, s)
		}
	}
	w.collRds, w.chanRds = nil, nil
	cdc2 := sNewCDC(w.f)
	startFails := vBool("reload.startFails")
	w.readerFails = startFails
	cdc2.ReloadTask()
	w.readerFails = false
	for _, t := range tasks {
		if !t.created {
			continue
		}
		if startFails {
			t.state = meta.TaskStatePaused
		} else if t.state != meta.TaskStatePaused {
			t.state = meta.TaskStateRunning
		}
	}
	w.mgrs = w.mgrs[:0]
	for _, ent := range cdc2.replicateEntityMap.data {
		w.mgrs = append(w.mgrs, ent.channelManager.(*sChanMgr))
	}
	c11Check(w, cdc2, tasks, ":after-restart")
	if c.created && !ok {
		vReach("left-over-record-reloaded")
	}
	vReach("end")
}

// VerifC11_ErrorDuringStart: a task's collection reader reports a read error while the task is
// still being started (StartRead walks all existing collections synchronously; the watcher
// goroutine pauses the task meanwhile). Afterwards the task is Paused in all four views, has no
// active reader, holds no share of the target's resources and left no quit function behind;
// it can be deleted, which removes everything.
func VerifC11_ErrorDuringStart() {
	w := sNewWorld()
	srv := &CDCServer{api: w.cdc, serverConfig: w.cdc.config}
	other := &c11Task{target: c11T1, coll: "o"}
	withOther := vBool("anotherTaskRunsOnTheTarget")
	if withOther {
		vAssert(c11Create(w, srv, other), "C11.create-accepted")
	}
	t := &c11Task{target: c11T1, coll: "a"}
	// the id is only known after the create: the task ids of the world are task-1, task-2, ...
	sErrDuringStart = "task-2"
	if !withOther {
		sErrDuringStart = "task-1"
	}
	ok := c11Create(w, srv, t)
	sErrDuringStart = ""
	vQuiesce()
	vAssert(ok, "C11.create-accepted")
	t.state = meta.TaskStatePaused
	c11Check(w, w.cdc, []*c11Task{other, t}, ":error-during-start")
	isErr, _, _ := c18Do(srv, request.Delete, &request.DeleteRequest{TaskID: t.id})
	vAssert(!isErr, "C11.delete-accepted")
	t.exists = false
	vQuiesce()
	c11Check(w, w.cdc, []*c11Task{other, t}, ":error-during-start-then-delete")
	vReach("end")
}
