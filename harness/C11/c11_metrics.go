//go:build verif

package metrics

import "github.com/zilliztech/milvus-cdc/server/model/meta"

func (t *TaskNumMetric) VerifHas(taskID string, state meta.TaskState) bool {
	t.numLock.RLock()
	defer t.numLock.RUnlock()
	_, ok := t.getStateMap(state)[taskID]
	return ok
}
