//go:build verif

package reader

// C03 harness: per downstream channel, emitted time is monotone and packs end
// with a tick. Real code: handlePack (all timestamp parts), resetMsgPackTimestamp,
// resetMsgTimestamp, tsManager.{CollectTS, GetMaxTS, InitTSInfo,
// UnsafeShouldSendTSMsg, UnsafeGetMaxTS, UnsafeUpdatePackTS, UnsafeGetLastSendTS,
// UnsafeUpdateTSInfo, Lock/UnLockTargetChannel, SendTargetMsg},
// innerHandleReplicateMsg, collectionSourceSeekPosition.

import (
	"math"
	"sync"

	"github.com/milvus-io/milvus-proto/go-api/v2/msgpb"
	"github.com/milvus-io/milvus/pkg/mq/msgstream"

	"github.com/zilliztech/milvus-cdc/core/api"
	"github.com/zilliztech/milvus-cdc/core/model"
)

const c03Lim = uint64(1) << 62

type c03Src struct {
	msg msgstream.TsMsg
	ts  uint64
}

// c03SourcePack builds one source pack of a time-ordered stream: pack bounds
// [b, e], n data messages with b <= ts <= e, positions on the stream's vchannel.
func c03SourcePack(tag string, collID int64, vch string, n int) (*msgstream.MsgPack, []c03Src) {
	b, e := vU64(tag+".beginTs"), vU64(tag+".endTs")
	vAssume(vAnd(vAnd(b >= 1, b <= e), e < c03Lim))
	pack := &msgstream.MsgPack{BeginTs: b, EndTs: e,
		StartPositions: []*msgpb.MsgPosition{rPos(vch, tag+"-start", b)},
		EndPositions:   []*msgpb.MsgPosition{rPos(vch, tag+"-end", e)}}
	var srcs []c03Src
	for i := 0; i < n; i++ {
		ts := vU64(tag + ".msgTs")
		vAssume(vAnd(ts >= b, ts <= e))
		var m msgstream.TsMsg
		if vBool(tag + ".isDelete") {
			m = rDelete(collID, 11, "p", vch, ts, rPos(vch, tag+"-m", ts), 2)
		} else {
			m = rInsert(collID, 11, "p", vch, ts, rPos(vch, tag+"-m", ts), 2)
		}
		pack.Msgs = append(pack.Msgs, m)
		srcs = append(srcs, c03Src{m, ts})
	}
	return pack, srcs
}

func c03SrcTs(srcs []c03Src, m msgstream.TsMsg) (uint64, bool) {
	for _, s := range srcs {
		if s.msg == m {
			return s.ts, true
		}
	}
	return 0, false
}

func c03RowTs(m msgstream.TsMsg) []uint64 {
	switch x := m.(type) {
	case *msgstream.InsertMsg:
		return x.Timestamps
	case *msgstream.DeleteMsg:
		return x.Timestamps
	}
	return nil
}

// c03CheckPack checks one emitted pack against the channel state before it.
// Returns the closing tick.
func c03CheckPack(out *api.ReplicateMsg, srcs []c03Src, ltsPre uint64, first bool, tag string) uint64 {
	p := out.MsgPack
	vAssert(len(p.Msgs) >= 1 && rIsTick(p.Msgs[len(p.Msgs)-1]), "C03.pack-ends-with-a-tick"+tag)
	tick := p.Msgs[len(p.Msgs)-1].EndTs()
	vKnown("C03-lagging-tick-only-pack", vAnd(len(srcs) == 0, tick < ltsPre))
	vAssert(tick >= ltsPre, "C03.closing-tick-never-decreases"+tag)
	vAssert(p.Msgs[len(p.Msgs)-1].BeginTs() == tick, "C03.tick-begin-equals-end"+tag)
	data := p.Msgs[:len(p.Msgs)-1]
	if len(data) > 0 && rIsTick(data[0]) {
		// the opening tick of the first pack on a channel
		vAssert(first, "C03.opening-tick-only-on-first-pack"+tag)
		vAssert(data[0].EndTs() <= tick, "C03.opening-tick-not-after-closing-tick"+tag)
		data = data[1:]
	}
	var prevSrc, prevNew uint64
	for i, m := range data {
		vAssert(!rIsTick(m), "C03.no-tick-in-the-middle"+tag)
		ts := m.EndTs()
		vAssert(ts > ltsPre, "C03.data-strictly-after-every-earlier-tick"+tag)
		vAssert(ts <= tick, "C03.data-not-after-own-closing-tick"+tag)
		vAssert(m.BeginTs() == ts, "C03.message-begin-equals-end"+tag)
		for _, rt := range c03RowTs(m) {
			vAssert(rt == ts, "C03.row-timestamps-equal-message-timestamp"+tag)
		}
		vAssert(m.Position() != nil && m.Position().GetTimestamp() == ts, "C03.position-timestamp-equals-message-timestamp"+tag)
		vAssert(vAnd(p.BeginTs <= ts, ts <= p.EndTs), "C03.message-inside-pack-bounds"+tag)
		st, ok := c03SrcTs(srcs, m)
		vAssert(ok, "C03.emitted-message-was-read"+tag)
		if i > 0 {
			vAssert(prevSrc <= st, "C03.source-time-order-kept"+tag)
			vAssert(vImplies(prevSrc == st, prevNew == ts), "C03.equal-stays-equal"+tag)
			vAssert(vImplies(prevSrc < st, prevNew < ts), "C03.earlier-stays-earlier"+tag)
		}
		prevSrc, prevNew = st, ts
	}
	if len(data) > 0 {
		vAssert(vAnd(p.BeginTs == data[0].EndTs(), p.EndTs == data[len(data)-1].EndTs()), "C03.pack-bounds-are-first-and-last-message-time"+tag)
		vAssert(tick >= p.EndTs, "C03.closing-tick-not-before-the-pack-end"+tag)
		for _, pos := range p.StartPositions {
			vAssert(pos.Timestamp == p.BeginTs, "C03.start-position-time-equals-pack-begin"+tag)
		}
		for _, pos := range p.EndPositions {
			vAssert(pos.Timestamp == p.EndTs, "C03.end-position-time-equals-pack-end"+tag)
		}
	}
	return tick
}

func c03Handler() (*rHandlerEnv, *tsInfo) {
	env := rNewHandler(rSrcP, rTgtP)
	env.rRegister(100, &model.TargetCollectionInfo{CollectionID: 900, CollectionName: "coll", DatabaseName: "db",
		PartitionInfo: map[string]int64{"p": 911}, PChannel: rTgtP, VChannel: rTgtP + "_900v0",
		PartitionBarrierChan: map[int64]*model.OnceWriteChan[*model.BarrierSignal]{}, DroppedPartition: map[int64]struct{}{}})
	ti := rInitTS(rTgtP, math.MaxUint64)
	return env, ti
}

// VerifC03_Step: inductive step. Arbitrary channel clock (lts <= cts < 2^62), one
// real handlePack on a symbolic pack (data or tick-only) of a stream whose clock
// is arbitrarily skewed against the channel.
func VerifC03_Step() {
	M := vParam("M", 2)
	env, ti := c03Handler()
	cts, lts := vU64("pre.cts"), vU64("pre.lts")
	vAssume(vAnd(lts <= cts, cts < c03Lim))
	ti.cts, ti.lts = cts, lts
	n := vChoice("nmsgs", M+1)
	pack, srcs := c03SourcePack("pack", 100, rSrcP+"_100v0", n)
	// the pack was read by this handler's own stream, or by another handler that forwarded it
	// here because this handler owns the downstream channel of the shard
	out := env.h.handlePack(vBool("pack.forwardedByAnotherHandler"), pack, "task")
	vAssert(out != nil, "C03.no-error-on-a-well-formed-pack")
	if out == nil {
		return
	}
	if out == api.EmptyMsgPack {
		vAssert(n == 0, "C03.only-a-tick-only-pack-may-emit-nothing")
		vAssert(vAnd(ti.lts == lts, ti.cts >= cts), "C03.silent-pack-keeps-the-last-tick")
		vReach("end")
		return
	}
	tick := c03CheckPack(out, srcs, lts, lts == 0, "")
	vAssert(ti.lts == tick, "C03.last-sent-tick-recorded")
	vAssert(vAnd(ti.lts <= ti.cts, ti.cts >= cts), "C03.clock-invariant-restored")
	vAssert(ti.cts < c03Lim+uint64(M)+2, "C03.clock-stays-in-range")
	vReach("end")
}

// VerifC03_History: K packs of two source streams multiplexed on one downstream
// channel, handled one after the other in any order, from a fresh or a resumed
// clock: the emitted ticks never decrease and every pack satisfies the step
// conditions against the tick before it.
func VerifC03_History() {
	K, M := vParam("K", 2), vParam("M", 1)
	env, ti := c03Handler()
	env.rRegister(200, &model.TargetCollectionInfo{CollectionID: 800, CollectionName: "coll2", DatabaseName: "db",
		PartitionInfo: map[string]int64{"p": 811}, PChannel: rTgtP, VChannel: rTgtP + "_800v0",
		PartitionBarrierChan: map[int64]*model.OnceWriteChan[*model.BarrierSignal]{}, DroppedPartition: map[int64]struct{}{}})
	if vBool("resumed") {
		// restart: the clock floor comes from the seek position of the handler's first
		// collection (the real startReadChannel reads it) and from the joining collection
		floor := vU64("resume.floor")
		vAssume(floor < c03Lim)
		GetTSManager().CollectTS(FormatChanKey(rRID, rTgtP), floor)
		GetTSManager().CollectTS(FormatChanKey(rRID, rTgtP), vU64("resume.startTs")&(c03Lim-1))
	}
	lastTick := uint64(0)
	emitted := 0
	for k := 0; k < K; k++ {
		stream := vChoice("stream", 2)
		coll, vch := int64(100), rSrcP+"_100v0"
		if stream == 1 {
			coll, vch = 200, rSrcP+"_200v0"
		}
		n := vChoice("nmsgs", M+1)
		pack, srcs := c03SourcePack("pack", coll, vch, n)
		// stream 1 reaches this handler through the forward hand-over of another handler
		out := env.h.handlePack(stream == 1 && vParam("FWD", 1) == 1, pack, "task")
		vAssert(out != nil, "C03.no-error-on-a-well-formed-pack")
		if out == nil || out == api.EmptyMsgPack {
			continue
		}
		tick := c03CheckPack(out, srcs, lastTick, emitted == 0, ":history")
		vAssert(ti.lts == tick, "C03.last-sent-tick-recorded")
		lastTick = tick
		emitted++
	}
	vReach("end")
}

// ---------------------------------------------------------------------------------
// Interference. handlePack reads the channel clock, shifts the pack, and only then
// takes the channel lock; streams sharing the downstream channel run in between.
// The hooks below are harness functions the executor (and, natively, an overlay
// wrapper) runs around the real tsManager lock / send functions. They do nothing
// unless an entry switches them on.

var (
	c03EnvOn           bool // havoc the channel clock right after the pack took the lock
	c03EnvTi           *tsInfo
	c03LockCts         uint64
	c03LockLts         uint64
	c03EnvRan          bool
	c03GateOn          bool // two-goroutine entry: force the order of locked phases and sends
	c03Mu              sync.Mutex
	c03Roles           map[int]int
	c03LockFirst       int
	c03SendFirst       int
	c03Unlocked, c03Sent [2]chan struct{}
	c03UnlockedF, c03SentF [2]bool
	c03LockGated           [2]bool
)

func c03BeforeLock(m *tsManager, channelName string) {
	if !c03GateOn {
		return
	}
	// the gate sits at the FIRST channel-lock operation of the pack (whatever lock the
	// implementation takes first), so the forced order does not depend on lock layout
	r := c03Role()
	if r < 0 || c03LockGated[r] {
		return
	}
	c03LockGated[r] = true
	if r != c03LockFirst {
		<-c03Unlocked[c03LockFirst]
	}
}

func c03AfterLock(m *tsManager, channelName string) {
	if !c03EnvOn || channelName != FormatChanKey(rRID, rTgtP) {
		return
	}
	c03EnvOn = false
	// Everything other streams of the channel can have done since this pack read the
	// clock: the clock and the last tick only move forward, last tick <= clock.
	ti := c03EnvTi
	cts2, lts2 := vU64("env.cts"), vU64("env.lts")
	vAssume(vAnd(vAnd(cts2 >= ti.cts, lts2 >= ti.lts), vAnd(lts2 <= cts2, cts2 < c03Lim)))
	ti.cts, ti.lts = cts2, lts2
	c03LockCts, c03LockLts = cts2, lts2
	c03EnvRan = true
}

func c03CloseOnce(chs *[2]chan struct{}, flags *[2]bool, r int) {
	c03Mu.Lock()
	if !flags[r] {
		flags[r] = true
		close(chs[r])
	}
	c03Mu.Unlock()
}

func c03AfterUnlock(m *tsManager, channelName string) {
	if c03GateOn && channelName == FormatChanKey(rRID, rTgtP) {
		if r := c03Role(); r >= 0 {
			c03CloseOnce(&c03Unlocked, &c03UnlockedF, r)
		}
	}
}

func c03BeforeSend(m *tsManager, channelName string, msg *api.ReplicateMsg) {
	if !c03GateOn {
		return
	}
	if r := c03Role(); r >= 0 && r != c03SendFirst {
		<-c03Sent[c03SendFirst]
	}
}

func c03AfterSend(m *tsManager, channelName string, msg *api.ReplicateMsg) {
	if c03GateOn {
		if r := c03Role(); r >= 0 {
			c03CloseOnce(&c03Sent, &c03SentF, r)
		}
	}
}

func c03Role() int {
	c03Mu.Lock()
	defer c03Mu.Unlock()
	if r, ok := c03Roles[vGoID()]; ok {
		return r
	}
	return -1
}

// VerifC03_Interference: the inductive step under interference. Arbitrary clock, one
// real handlePack; between the pack's unlocked phase (reading the clock, shifting the
// pack) and its locked phase the other streams of the channel advance the clock and
// the last tick arbitrarily (rely: both only grow, last tick <= clock). Asserted: the
// step conditions against the last tick in force when the lock was taken, and the
// guarantee that makes the rely condition inductive (this step never moves the clock
// or the last tick backwards either).
func VerifC03_Interference() {
	M := vParam("M", 2)
	env, ti := c03Handler()
	cts, lts := vU64("pre.cts"), vU64("pre.lts")
	vAssume(vAnd(lts <= cts, cts < c03Lim))
	ti.cts, ti.lts = cts, lts
	n := vChoice("nmsgs", M+1)
	pack, srcs := c03SourcePack("pack", 100, rSrcP+"_100v0", n)
	c03EnvOn, c03EnvTi, c03EnvRan = true, ti, false
	out := env.h.handlePack(false, pack, "task")
	c03EnvOn = false
	vAssert(out != nil, "C03.no-error-on-a-well-formed-pack")
	vAssert(c03EnvRan, "C03.harness:interference-point-reached")
	if out == nil || !c03EnvRan {
		return
	}
	if out == api.EmptyMsgPack {
		vAssert(n == 0, "C03.only-a-tick-only-pack-may-emit-nothing")
		vAssert(vAnd(ti.lts == c03LockLts, ti.cts >= c03LockCts), "C03.silent-pack-keeps-the-last-tick:interference")
		vReach("end")
		return
	}
	tick := c03CheckPack(out, srcs, c03LockLts, c03LockLts == 0, ":interference")
	vAssert(ti.lts == tick, "C03.last-sent-tick-recorded:interference")
	vAssert(vAnd(ti.lts <= ti.cts, ti.cts >= c03LockCts), "C03.clock-never-moves-backwards:interference")
	vReach("end")
}

// VerifC03_EnqueueOrder: two handlers (two source channels) sharing one downstream
// channel, each handling one pack in its own goroutine through the real
// innerHandleReplicateMsg. The order of the two locked phases and the order of the two
// enqueue operations are chosen independently (gates at the lock / send hooks), which
// covers the window between computing a pack and enqueueing it. The oracle reads the
// downstream channel in the order the writer would.
func VerifC03_EnqueueOrder() {
	M := vParam("M", 1)
	envA, ti := c03Handler()
	envB := rNewHandler("src-dml_1", rTgtP)
	envB.rRegister(200, &model.TargetCollectionInfo{CollectionID: 800, CollectionName: "coll2", DatabaseName: "db",
		PartitionInfo: map[string]int64{"p": 811}, PChannel: rTgtP, VChannel: rTgtP + "_800v0",
		PartitionBarrierChan: map[int64]*model.OnceWriteChan[*model.BarrierSignal]{}, DroppedPartition: map[int64]struct{}{}})
	cts, lts := vU64("pre.cts"), vU64("pre.lts")
	vAssume(vAnd(vAnd(lts <= cts, cts < c03Lim), lts >= 1)) // not the first pack of the channel
	ti.cts, ti.lts = cts, lts
	nA, nB := 1+vChoice("nmsgsA", M), 1+vChoice("nmsgsB", M)
	packA, srcsA := c03SourcePack("packA", 100, rSrcP+"_100v0", nA)
	packB, srcsB := c03SourcePack("packB", 200, "src-dml_1_200v0", nB)
	c03Roles = map[int]int{}
	c03LockFirst, c03SendFirst = vChoice("lockedPhaseFirst", 2), vChoice("enqueueFirst", 2)
	for i := 0; i < 2; i++ {
		c03Unlocked[i], c03Sent[i] = make(chan struct{}), make(chan struct{})
		c03UnlockedF[i], c03SentF[i], c03LockGated[i] = false, false, false
	}
	c03GateOn = true
	var wg sync.WaitGroup
	run := func(role int, env *rHandlerEnv, msg *api.ReplicateMsg) {
		defer wg.Done()
		c03Mu.Lock()
		c03Roles[vGoID()] = role
		c03Mu.Unlock()
		env.h.innerHandleReplicateMsg(false, msg)
		// a pack that emitted nothing must not keep the other goroutine waiting
		c03CloseOnce(&c03Unlocked, &c03UnlockedF, role)
		c03CloseOnce(&c03Sent, &c03SentF, role)
	}
	wg.Add(2)
	go run(0, envA, api.GetReplicateMsg(rSrcP, "coll", 100, packA, "task"))
	go run(1, envB, api.GetReplicateMsg("src-dml_1", "coll2", 200, packB, "task"))
	wg.Wait()
	c03GateOn = false
	ch := GetTSManager().GetTargetMsgChan(rRID, rTgtP)
	vAssert(len(ch) == 2, "C03.both-data-packs-are-enqueued")
	last := lts
	for len(ch) > 0 {
		o := <-ch
		srcs := srcsA
		if o.CollectionID == 200 {
			srcs = srcsB
		}
		last = c03CheckPack(o, srcs, last, false, ":enqueue-order")
	}
	vReach("end")
}

// VerifC03_ResumeStreams: restart from checkpoints. The handler is created for collection
// X (seek position time tx), collection Y joins through the REAL AddCollection with its own
// checkpoint (seek time ty, user start time sy); their streams are fake channels read by
// the real AddCollection goroutines. A replayed pack of either stream is emitted above
// that stream's own resume time (everything up to it was already delivered before the
// restart) and satisfies the step conditions against the last tick.
func VerifC03_ResumeStreams() {
	env := rNewHandler(rSrcP, rTgtP)
	tx, ty, sy := vU64("x.seekTs"), vU64("y.seekTs"), vU64("y.startTs")
	vAssume(vAnd(vAnd(tx >= 1, tx < c03Lim), vAnd(vAnd(ty >= 1, ty < c03Lim), sy < c03Lim)))
	env.h.sourceSeekPosition = rPos(rSrcP, "seekX", tx)
	env.h.startReadChannel() // real: clock floor from the creator's seek position, message loop goroutine
	ti, _ := GetTSManager().channelTS2.Get(FormatChanKey(rRID, rTgtP))
	ti.cts, ti.lts = tx, 0 // a fresh process (natively the clock table is process-wide)
	for len(ti.targetMsgChan) > 0 {
		<-ti.targetMsgChan
	}
	vchX, vchY := rSrcP+"_100v0", rSrcP+"_200v0"
	mk := func(id int64, name string) *model.TargetCollectionInfo {
		return &model.TargetCollectionInfo{CollectionID: 700 + id, CollectionName: name, DatabaseName: "db",
			PartitionInfo: map[string]int64{"p": 911}, PChannel: rTgtP, VChannel: rTgtP + "_900v0",
			PartitionBarrierChan: map[int64]*model.OnceWriteChan[*model.BarrierSignal]{}, DroppedPartition: map[int64]struct{}{}}
	}
	env.h.AddCollection("task", &model.SourceCollectionInfo{PChannel: rSrcP, VChannel: vchX, CollectionID: 100, SeekPosition: rPos(rSrcP, "seekX", tx)}, mk(100, "coll"))
	env.h.AddCollection("task", &model.SourceCollectionInfo{PChannel: rSrcP, VChannel: vchY, CollectionID: 200, SeekPosition: rPos(rSrcP, "seekY", ty), StartTs: sy}, mk(200, "coll2"))
	vQuiesce()
	vAssert(env.streams.chans[vchX] != nil && env.streams.chans[vchY] != nil, "C03.harness:streams-opened")
	vAssert(string(env.streams.seeks[vchY].GetMsgID()) == "seekY", "C03.joining-stream-is-opened-at-its-own-checkpoint")
	// one replayed pack, of X or of Y
	ofY := vBool("replayedPackOfY")
	coll, vch, floor := int64(100), vchX, tx
	if ofY {
		coll, vch, floor = 200, vchY, ty
		if sy > floor {
			floor = sy
		}
	}
	pack, srcs := c03SourcePack("pack", coll, vch, 1)
	ltsPre := ti.lts
	env.streams.chans[vch] <- pack
	vQuiesce()
	vAssert(len(ti.targetMsgChan) == 1, "C03.replayed-pack-is-emitted")
	if len(ti.targetMsgChan) == 1 {
		out := <-ti.targetMsgChan
		tick := c03CheckPack(out, srcs, ltsPre, true, ":resume")
		for _, m := range out.MsgPack.Msgs {
			if !rIsTick(m) {
				vAssert(m.EndTs() > floor, "C03.replayed-data-is-emitted-above-its-stream's-resume-time")
			}
		}
		vAssert(tick > floor, "C03.closing-tick-after-resume-is-above-the-resume-time")
	}
	vReach("end")
}
