//go:build verif

package reader

// C15 harness: the start-up snapshot of dropped objects gives correct skip
// horizons. Real code: EtcdOp.GetAllDroppedObj (everything after the fetches),
// util.{GetDBInfoKeys, GetCollectionInfoKeys, GetPartitionInfoKeys}.
// The three catalog fetches, the TSO read and the target's database lookup are
// replaced by a symbolic catalog.

import (
	"context"
	"time"

	"github.com/milvus-io/milvus-proto/go-api/v2/schemapb"
	clientv3 "go.etcd.io/etcd/client/v3"

	"github.com/zilliztech/milvus-cdc/core/api"
	"github.com/zilliztech/milvus-cdc/core/model"
	"github.com/zilliztech/milvus-cdc/core/pb"
	"github.com/zilliztech/milvus-cdc/core/util"
)

type c15KV struct{ clientv3.KV }

func (k *c15KV) Get(ctx context.Context, key string, opts ...clientv3.OpOption) (*clientv3.GetResponse, error) {
	resp := &clientv3.GetResponse{}
	kv := c15NewOf(resp.Kvs) // *mvccpb.KeyValue without importing an indirect dependency
	kv.Key, kv.Value = []byte(key), []byte("tso")
	resp.Kvs = append(resp.Kvs, kv)
	return resp, nil
}

func c15NewOf[T any](_ []*T) *T { return new(T) }

var (
	c15Now   uint64
	c15Colls []*pb.CollectionInfo
	c15Parts []*pb.PartitionInfo
)

func c15ParseTimestamp(data []byte) (time.Time, error)       { return time.Time{}, nil }
func c15ComposeTS(physical time.Time, logical int64) uint64 { return c15Now }
func c15GetDatabases(e *EtcdOp, ctx context.Context) ([]model.DatabaseInfo, error) {
	return nil, nil
}
// the listings stand in for the etcd reads of internalGetAllCollection / internalGetAllPartition and,
// like them, leave out every record one of the caller's filters rejects
func c15GetAllCollection(e *EtcdOp, ctx context.Context, fillField bool, filters []api.CollectionFilter) ([]*pb.CollectionInfo, error) {
	var out []*pb.CollectionInfo
	for _, info := range c15Colls {
		filtered := false
		for _, f := range filters {
			if f != nil && f(info) {
				filtered = true
				break
			}
		}
		if !filtered {
			out = append(out, info)
		}
	}
	return out, nil
}
func c15GetAllPartition(e *EtcdOp, ctx context.Context, filters []api.PartitionFilter) ([]*pb.PartitionInfo, error) {
	var out []*pb.PartitionInfo
	for _, info := range c15Parts {
		filtered := false
		for _, f := range filters {
			if f != nil && f(info) {
				filtered = true
				break
			}
		}
		if !filtered {
			out = append(out, info)
		}
	}
	return out, nil
}

// c15Target follows the documented contract of TargetClient.GetDatabaseName: a
// live database name is returned unchanged; for a database dropped upstream the
// downstream is searched for the collection: some downstream database still holds
// it or none does (util.NotFoundDatabase). The answer is fixed per collection name.
type c15Target struct {
	api.DefaultTargetAPI
	names []string // collection names living in databases dropped upstream
	found []bool
	tdbs  []string
}

func (t *c15Target) GetDatabaseName(ctx context.Context, collectionName, databaseName string) (string, error) {
	if !IsDroppedObject(databaseName) {
		return databaseName, nil
	}
	found, tdb := false, ""
	for i, n := range t.names {
		hit := n == collectionName
		found = vOr(found, vAnd(hit, t.found[i]))
		tdb = vIteStr(vAnd(hit, t.found[i]), t.tdbs[i], tdb)
	}
	if !found {
		return "", util.NotFoundDatabase
	}
	return tdb, nil
}

type c15Coll struct {
	id       int64
	origDB   string // source database name ("_tome" if the database is dropped upstream)
	resolved bool   // the record takes part in the snapshot
	db       string // database name the record is keyed under
	name     string
	dropped  bool
	create   uint64
}

type c15Part struct {
	coll    *c15Coll
	name    string
	dropped bool
	create  uint64
}

func c15Name(tag string, L int) string {
	s := vStr(tag, L)
	vAssume(s != "")
	return s
}

// VerifC15_Snapshot
func VerifC15_Snapshot() {
	L, C, P := vParam("L", 3), vParam("C", 2), vParam("P", 1)
	c15Now = vU64("now")
	vAssume(vAnd(c15Now >= 2, c15Now < 1<<62))
	e := &EtcdOp{rootPath: "by-dev", metaSubPath: "meta", defaultPartitionName: "_default", etcdClient: &clientv3.Client{KV: &c15KV{}}}
	// databases: each live or dropped upstream (tombstoned: only known as "_tome")
	d1 := TomeObject
	if vBool("db1.live") {
		d1 = c15Name("db1", L)
		vAssume(d1 != TomeObject)
	}
	e.dbID2Name.Store(1, d1)
	d2 := TomeObject
	if vBool("db2.live") {
		d2 = c15Name("db2", L)
		vAssume(vAnd(d2 != d1, d2 != TomeObject))
	}
	e.dbID2Name.Store(2, d2)
	var tgt *c15Target
	if vChoice("target", 2) == 1 {
		tgt = &c15Target{}
		e.targetMilvus = tgt
	}
	// collections
	nc := 1 + vChoice("ncolls", C)
	var colls []*c15Coll
	c15Colls, c15Parts = nil, nil
	for i := 0; i < nc; i++ {
		c := &c15Coll{id: int64(10 + i), name: c15Name("coll.name", L), create: vU64("coll.create")}
		vAssume(vAnd(c.create >= 1, c.create < c15Now))
		dbID := int64(1 + vChoice("coll.db", 2))
		c.origDB = d1
		if dbID == 2 {
			c.origDB = d2
		}
		st := vI32("coll.state")
		vAssume(vAnd(st >= 0, st <= 3))
		c.dropped = st >= 2
		// which database name the snapshot must key the record under
		c.resolved, c.db = true, c.origDB
		if tgt != nil && IsDroppedObject(c.origDB) {
			// the downstream's answer for this collection of a dropped database
			f, tdb := vBool("target.holdsCollection"), c15Name("target.db", L)
			for _, n := range tgt.names {
				vAssume(n != c.name) // one answer per collection name
			}
			tgt.names, tgt.found, tgt.tdbs = append(tgt.names, c.name), append(tgt.found, f), append(tgt.tdbs, tdb)
			c.resolved, c.db = f, tdb
		}
		e.collectionID2Name.Store(c.id, c.name)
		e.collectionID2DBID.Store(c.id, dbID)
		c15Colls = append(c15Colls, &pb.CollectionInfo{ID: c.id, Schema: &schemapb.CollectionSchema{Name: c.name}, State: pb.CollectionState(st), CreateTime: c.create})
		colls = append(colls, c)
	}
	// catalog invariant: at most one live incarnation per (database, name)
	for i := range colls {
		for j := i + 1; j < len(colls); j++ {
			a, b := colls[i], colls[j]
			same := vAnd(vAnd(a.resolved, b.resolved), vAnd(a.db == b.db, a.name == b.name))
			vAssume(!vAnd(same, vAnd(!a.dropped, !b.dropped)))
		}
	}
	// partitions
	np := vChoice("nparts", P+1)
	var parts []*c15Part
	for i := 0; i < np; i++ {
		p := &c15Part{coll: colls[vChoice("part.coll", len(colls))], name: c15Name("part.name", L), create: vU64("part.create")}
		vAssume(vAnd(p.create >= 1, p.create < c15Now))
		st := vI32("part.state")
		vAssume(vAnd(st >= 0, st <= 3))
		p.dropped = st >= 2
		c15Parts = append(c15Parts, &pb.PartitionInfo{PartitionID: int64(100 + i), PartitionName: p.name, CollectionId: p.coll.id, State: pb.PartitionState(st), PartitionCreatedTimestamp: p.create})
		parts = append(parts, p)
	}
	for i := range parts {
		for j := i + 1; j < len(parts); j++ {
			a, b := parts[i], parts[j]
			same := vAnd(vAnd(a.coll.resolved, b.coll.resolved), vAnd(vAnd(a.coll.db == b.coll.db, a.coll.name == b.coll.name), a.name == b.name))
			vAssume(!vAnd(same, vAnd(!a.dropped, !b.dropped)))
		}
	}

	res := e.GetAllDroppedObj()

	dbTab, collTab, partTab := res[util.DroppedDatabaseKey], res[util.DroppedCollectionKey], res[util.DroppedPartitionKey]
	vAssert(dbTab != nil && collTab != nil && partTab != nil, "C15.three-tables")

	// Known finding C15-key-ambiguity: name keys are "db_coll_d" / "db_coll_part_d", so
	// two DIFFERENT name tuples whose names contain '_' can share one key.
	collClash, partClash := false, false
	for i := range colls {
		for j := i + 1; j < len(colls); j++ {
			a, b := colls[i], colls[j]
			_, ka := util.GetCollectionInfoKeys(a.name, a.db)
			_, kb := util.GetCollectionInfoKeys(b.name, b.db)
			collClash = vOr(collClash, vAnd(ka == kb, !vAnd(a.db == b.db, a.name == b.name)))
		}
	}
	for i := range parts {
		for j := i + 1; j < len(parts); j++ {
			a, b := parts[i], parts[j]
			_, ka := util.GetPartitionInfoKeys(a.name, a.coll.name, a.coll.db)
			_, kb := util.GetPartitionInfoKeys(b.name, b.coll.name, b.coll.db)
			partClash = vOr(partClash, vAnd(ka == kb, !vAnd(vAnd(a.coll.db == b.coll.db, a.coll.name == b.coll.name), a.name == b.name)))
		}
	}

	// ---- collections ----
	for _, c := range colls {
		if !c.resolved {
			continue
		}
		_, key := util.GetCollectionInfoKeys(c.name, c.db)
		hasDropped, hasLive, liveCreate := false, false, uint64(0)
		for _, o := range colls {
			same := vAnd(o.resolved, vAnd(o.db == c.db, o.name == c.name))
			hasDropped = vOr(hasDropped, vAnd(same, o.dropped))
			isLive := vAnd(same, !o.dropped)
			hasLive = vOr(hasLive, isLive)
			liveCreate = vIteU64(isLive, o.create, liveCreate)
		}
		got, ok := c15Lookup(collTab, key)
		vKnown("C15-key-ambiguity", collClash)
		vAssert(ok == hasDropped, "C15.collection-entry-exactly-for-names-with-a-dropped-incarnation")
		if ok {
			vKnown("C15-key-ambiguity", collClash)
			vAssert(vImplies(vAnd(hasDropped, hasLive), got < liveCreate), "C15.collection-horizon-strictly-before-live-namesake")
			vKnown("C15-key-ambiguity", collClash)
			vAssert(vImplies(vAnd(hasDropped, !hasLive), got == c15Now-1), "C15.collection-horizon-just-below-now")
		}
	}
	for k := range collTab {
		from := false
		for _, c := range colls {
			_, key := util.GetCollectionInfoKeys(c.name, c.db)
			from = vOr(from, vAnd(vAnd(c.resolved, c.dropped), key == k))
		}
		vAssert(from, "C15.no-spurious-collection-entry")
	}
	// ---- databases gone upstream but still present downstream ----
	for k, v := range dbTab {
		from := false
		for _, c := range colls {
			_, key := util.GetDBInfoKeys(c.db)
			from = vOr(from, vAnd(vAnd(c.resolved, IsDroppedObject(c.origDB)), vAnd(tgt != nil, key == k)))
		}
		vAssert(from, "C15.no-spurious-database-entry")
		vAssert(v == c15Now-1, "C15.database-horizon-just-below-now")
	}
	if tgt != nil {
		for _, c := range colls {
			if IsDroppedObject(c.origDB) && c.resolved {
				_, key := util.GetDBInfoKeys(c.db)
				_, ok := c15Lookup(dbTab, key)
				vAssert(ok, "C15.database-gone-upstream-present-downstream-has-entry")
			}
		}
	}
	// ---- partitions ----
	for _, p := range parts {
		if !p.coll.resolved {
			continue
		}
		_, key := util.GetPartitionInfoKeys(p.name, p.coll.name, p.coll.db)
		hasDropped, hasLive, liveCreate := false, false, uint64(0)
		for _, o := range parts {
			same := vAnd(o.coll.resolved, vAnd(vAnd(o.coll.db == p.coll.db, o.coll.name == p.coll.name), o.name == p.name))
			hasDropped = vOr(hasDropped, vAnd(same, o.dropped))
			isLive := vAnd(same, !o.dropped)
			hasLive = vOr(hasLive, isLive)
			liveCreate = vIteU64(isLive, o.create, liveCreate)
		}
		got, ok := c15Lookup(partTab, key)
		vKnown("C15-key-ambiguity", partClash)
		vAssert(ok == hasDropped, "C15.partition-entry-exactly-for-names-with-a-dropped-incarnation")
		if ok {
			vKnown("C15-key-ambiguity", partClash)
			vAssert(vImplies(vAnd(hasDropped, hasLive), got < liveCreate), "C15.partition-horizon-strictly-before-live-namesake")
			vKnown("C15-key-ambiguity", partClash)
			vAssert(vImplies(vAnd(hasDropped, !hasLive), got == c15Now-1), "C15.partition-horizon-just-below-now")
		}
	}
	for k := range partTab {
		from := false
		for _, p := range parts {
			_, key := util.GetPartitionInfoKeys(p.name, p.coll.name, p.coll.db)
			from = vOr(from, vAnd(vAnd(p.coll.resolved, p.dropped), key == k))
		}
		vAssert(from, "C15.no-spurious-partition-entry")
	}
	vReach("end")
}

// c15Lookup reads a table without forking on key comparisons.
func c15Lookup(tab map[string]uint64, key string) (uint64, bool) {
	got, ok := uint64(0), false
	for k, v := range tab {
		hit := k == key
		ok = vOr(ok, hit)
		got = vIteU64(hit, v, got)
	}
	return got, ok
}

// VerifC15_TwoPartitions: one collection, two partition records (a dropped incarnation and a
// namesake in any state, created / creating included)
func VerifC15_TwoPartitions() { VerifC15_Snapshot() }
