//go:build verif

package reader

// C02 harness: replicated messages are re-addressed and routed to the right
// downstream channel. Real code: handlePack's rewrite part, getPartitionID (lazy
// refresh through the target API), updateTargetPartitionInfo, the forward decision
// and the forward=true path, ForeachChannel (vchannel pairing),
// TargetClient.mapDBAndCollectionName.

import (
	"github.com/milvus-io/milvus-proto/go-api/v2/msgpb"
	"github.com/milvus-io/milvus/pkg/mq/msgstream"

	"github.com/zilliztech/milvus-cdc/core/api"
	"github.com/zilliztech/milvus-cdc/core/model"
	"github.com/zilliztech/milvus-cdc/core/util"
)

func c02Ids(m msgstream.TsMsg) (coll int64, part int64, hasPart bool, shard string, hasShard bool, partName string) {
	switch x := m.(type) {
	case *msgstream.InsertMsg:
		return x.CollectionID, x.PartitionID, true, x.ShardName, true, x.PartitionName
	case *msgstream.DeleteMsg:
		return x.CollectionID, x.PartitionID, x.PartitionName != "", x.ShardName, true, x.PartitionName
	case *msgstream.DropPartitionMsg:
		return x.CollectionID, x.PartitionID, true, "", false, x.PartitionName
	case *msgstream.DropCollectionMsg:
		return x.CollectionID, 0, false, "", false, ""
	case *msgstream.ImportMsg:
		return x.CollectionID, 0, false, "", false, ""
	}
	return 0, 0, false, "", false, ""
}

// VerifC02_Rewrite: ids, shard name and positions of every emitted message.
func VerifC02_Rewrite() {
	M := vParam("M", 2)
	w := c01NewWorld(false)
	// downstream ids are arbitrary
	tgtColl, tgtPart := vI64("target.collectionID"), vI64("target.partitionID")
	vAssume(vAnd(tgtPart != 0, tgtPart != -1)) // 0 / -1 are the lookup's "unknown" / "dropped" markers
	w.info.CollectionID = tgtColl
	if vBool("world.positionsNamePhysicalChannel") {
		w.posCh = rSrcP
	}
	w.env.target.parts["p"] = tgtPart
	if !w.lazyPart {
		w.info.PartitionInfo["p"] = tgtPart
	}
	pack, ins := w.pack(M, false)
	w.env.h.innerHandleReplicateMsg(false, api.GetReplicateMsg(rSrcP, "coll", w.srcColl, pack, "task-7"))
	outs := c01Emitted()
	vAssert(len(w.env.eventChan) == 0, "C02.no-error")
	for _, o := range outs {
		p := o.MsgPack
		for _, pos := range append(append([]*msgpb.MsgPosition{}, p.StartPositions...), p.EndPositions...) {
			vAssert(pos.ChannelName == rTgtP, "C02.pack-positions-name-the-downstream-channel")
		}
		vAssert(len(p.StartPositions) == 1 && string(p.StartPositions[0].MsgID) == "start" && len(p.EndPositions) == 1 && string(p.EndPositions[0].MsgID) == "end", "C02.pack-positions-keep-the-source-message-ids")
		for _, m := range p.Msgs {
			if rIsTick(m) {
				vAssert(m.Position() != nil && m.Position().ChannelName == rTgtP, "C02.tick-position-names-the-downstream-channel")
				continue
			}
			in := c01FindByID(ins, m)
			vAssert(in != nil, "C02.message-keeps-its-source-message-id")
			coll, part, hasPart, shard, hasShard, partName := c02Ids(m)
			vAssert(coll == tgtColl, "C02.collection-id-is-the-downstream-id")
			if hasPart {
				vAssert(partName == "p" && part == tgtPart, "C02.partition-id-is-the-downstream-id-of-the-same-named-partition")
			}
			if hasShard {
				vAssert(shard == w.info.VChannel, "C02.shard-name-is-the-paired-downstream-vchannel")
			}
			pc := m.Position().GetChannelName()
			vAssert(pc == w.info.VChannel || pc == w.info.PChannel, "C02.message-position-names-the-downstream-channel")
			vAssert(m.Position().GetMsgGroup() == "grp", "C02.message-position-keeps-the-group")
		}
	}
	if w.lazyPart {
		need := false
		for _, in := range ins {
			need = need || in.kind == "Insert" || in.kind == "Delete" || in.kind == "DropPartition" || in.kind == "Import"
		}
		vAssert(!need || w.env.target.lookups >= 1, "C02.unknown-partition-id-is-learned-from-the-downstream")
	}
	vReach("end")
}

// VerifC02_Forward: the collection's shard lives on another downstream pchannel
// than this handler's: the pack is handed to the handler of that pchannel and
// emitted there, with positions naming that channel.
func VerifC02_Forward() {
	w := c01NewWorld(false)
	otherP := "tgt-dml_1"
	w.info.PChannel, w.info.VChannel = otherP, otherP+"_900v0"
	if vBool("world.positionsNamePhysicalChannel") {
		w.posCh = rSrcP
	}
	other := rNewHandler("src-dml_1", otherP)
	rInitTS(otherP, 18446744073709551615)
	pack, ins := w.pack(vParam("M", 2), false)
	w.env.h.innerHandleReplicateMsg(false, api.GetReplicateMsg(rSrcP, "coll", w.srcColl, pack, "task-7"))
	for _, o := range c01Emitted() {
		for _, m := range o.MsgPack.Msgs {
			vAssert(rIsTick(m), "C02.nothing-emitted-on-the-wrong-downstream-channel")
		}
	}
	dml := 0
	for _, in := range ins {
		if c01Supported(in.kind) {
			dml++
		}
	}
	if dml == 0 {
		vAssert(len(w.env.forwarded) == 0, "C02.tick-only-pack-is-not-forwarded")
		vReach("end")
		return
	}
	vAssert(len(w.env.forwarded) == 1, "C02.pack-is-forwarded-once")
	if len(w.env.forwarded) != 1 {
		return
	}
	fw := w.env.forwarded[0]
	vAssert(fw.channel == otherP, "C02.forwarded-to-the-pchannel-hosting-the-shard")
	vAssert(fw.msg.CollectionID == w.srcColl && fw.msg.TaskID == "task-7" && fw.msg.PChannelName == rSrcP, "C02.forwarded-pack-keeps-its-stream-labels")
	// the owning handler emits it
	other.h.innerHandleReplicateMsg(true, fw.msg)
	ch := GetTSManager().GetTargetMsgChan(rRID, otherP)
	vAssert(len(ch) == 1, "C02.forwarded-pack-is-emitted-on-the-hosting-channel")
	if len(ch) == 1 {
		o := <-ch
		n := 0
		for _, m := range o.MsgPack.Msgs {
			if rIsTick(m) {
				continue
			}
			n++
			_, _, _, shard, hasShard, _ := c02Ids(m)
			if hasShard {
				vAssert(shard == w.info.VChannel, "C02.forwarded-shard-name-is-the-paired-downstream-vchannel")
			}
			pc := m.Position().GetChannelName()
			vAssert(pc == w.info.VChannel || pc == otherP, "C02.forwarded-message-position-names-the-hosting-channel")
		}
		vAssert(n == dml, "C02.forwarded-pack-complete")
		for _, pos := range append(append([]*msgpb.MsgPosition{}, o.MsgPack.StartPositions...), o.MsgPack.EndPositions...) {
			vAssert(pos.ChannelName == otherP, "C02.forwarded-pack-positions-name-the-hosting-channel")
		}
		vAssert(o.CollectionID == w.srcColl && o.TaskID == "task-7" && o.PChannelName == rSrcP, "C02.forwarded-pack-labelled-with-its-stream")
	}
	vReach("end")
}

// VerifC02_Pairing: source and downstream vchannels are paired one-to-one, i-th
// smallest with i-th smallest.
func VerifC02_Pairing() {
	S, L := vParam("S", 2), vParam("L", 2)
	var src, tgt []string
	for i := 0; i < S; i++ {
		a, b := vStr("source.vchannel", L), vStr("target.vchannel", L)
		for _, o := range src {
			vAssume(o != a)
		}
		for _, o := range tgt {
			vAssume(o != b)
		}
		src, tgt = append(src, a), append(tgt, b)
	}
	type pair struct{ s, t string }
	var got []pair
	err := ForeachChannel(src, tgt, func(s, t string) error { got = append(got, pair{s, t}); return nil })
	vAssert(err == nil && len(got) == S, "C02.every-shard-paired")
	for i, p := range got {
		// rank of s among sources == rank of t among targets
		rs, rt := 0, 0
		inS, inT := false, false
		for _, x := range src {
			if x < p.s {
				rs++
			}
			inS = vOr(inS, x == p.s)
		}
		for _, x := range tgt {
			if x < p.t {
				rt++
			}
			inT = vOr(inT, x == p.t)
		}
		vAssert(vAnd(inS, inT), "C02.pairs-are-real-channels")
		vAssert(rs == rt && rs == i, "C02.ith-smallest-paired-with-ith-smallest")
	}
	vAssert(ForeachChannel(src, tgt[:S-1], func(s, t string) error { return nil }) != nil, "C02.unequal-shard-counts-rejected")
	vReach("end")
}

// VerifC02_TargetMapping: the reader-side name mapping used for downstream
// lookups prefers a collection-level entry over a whole-database entry.
func VerifC02_TargetMapping() {
	L := vParam("L", 2)
	t := &TargetClient{}
	// concrete names: the symbolic-name version of this function is checked on the writer's
	// copy (C09); here the point is independence of the mapping table's iteration order
	_ = L
	db, coll := "srcdb", "c1"
	exactT, wildT := "xdb", "ydb"
	m := map[string]string{}
	hasExact, hasWild := vBool("hasExactEntry"), vBool("hasWholeDBEntry")
	if hasExact {
		m[db+"."+coll] = exactT + ".tc"
	}
	if hasWild {
		m[db+".*"] = wildT + ".*"
	}
	t.UpdateNameMappings(m)
	gdb, gcoll := t.mapDBAndCollectionName(db, coll)
	switch {
	case hasExact:
		vAssert(vAnd(gdb == exactT, gcoll == "tc"), "C02.collection-level-entry-wins")
	case hasWild:
		vAssert(vAnd(gdb == wildT, gcoll == coll), "C02.whole-database-entry-applies")
	default:
		vAssert(vAnd(gdb == db, gcoll == coll), "C02.unmapped-names-unchanged")
	}
	_ = util.DefaultDbName
	_ = model.CollectionInfo{}
	vReach("end")
}
