//go:build verif

package reader

// Real-plumbing entries on the manager's channel hand-over (round 3):
//   VerifC02_WaitChannelRouting  - a handler that had to WAIT for a free downstream channel
//     (startReadChannel -> waitChannel <- forwardChannel) still delivers every pack on the
//     output stream of the downstream channel hosting the pack's shard.
//   VerifC01_ForwardOrderRealPlumbing - packs of one source stream that take the forward
//     path keep their read order also when the first of them arrives while no handler owns
//     the forward channel yet (forwardMsg retrying; retry back-off = "until the harness lets
//     time pass", see RY in the engine's retry model).
// Both run the manager's own StartReadCollection / startReadChannel / waitChannel /
// forwardChannel / forwardMsg / AddCollection goroutines over the fake stream creator.

import (
	"github.com/milvus-io/milvus-proto/go-api/v2/commonpb"
	"github.com/milvus-io/milvus-proto/go-api/v2/msgpb"
	"github.com/milvus-io/milvus-proto/go-api/v2/schemapb"
	"github.com/milvus-io/milvus/pkg/mq/msgstream"

	"github.com/zilliztech/milvus-cdc/core/api"
	"github.com/zilliztech/milvus-cdc/core/config"
	"github.com/zilliztech/milvus-cdc/core/model"
	"github.com/zilliztech/milvus-cdc/core/pb"
	"github.com/zilliztech/milvus-cdc/core/util"
)

type c02Shard struct{ srcP, tgtP, srcV, tgtV string }

type c02Coll struct {
	id, tid int64
	name    string
	shards  []c02Shard
}

func c02Digit(i int64) string { return string(rune('0' + i/100)) + string(rune('0'+(i/10)%10)) + string(rune('0'+i%10)) }

func c02MkColl(id, tid int64, name string, pairs ...[2]string) c02Coll {
	c := c02Coll{id: id, tid: tid, name: name}
	for i, p := range pairs {
		c.shards = append(c.shards, c02Shard{p[0], p[1],
			p[0] + "_" + c02Digit(id) + "v" + string(rune('0'+i)), p[1] + "_" + c02Digit(tid) + "v" + string(rune('0'+i))})
	}
	return c
}

func (w *c04World) c02Start(cs []c02Coll, c c02Coll) error {
	w.target.byName = map[string]*model.CollectionInfo{}
	for _, x := range cs {
		ci := &model.CollectionInfo{DatabaseName: "db", CollectionID: x.tid, CollectionName: x.name, Partitions: map[string]int64{"_default": 1}}
		for _, s := range x.shards {
			ci.PChannels = append(ci.PChannels, s.tgtP)
			ci.VChannels = append(ci.VChannels, s.tgtV)
		}
		w.target.byName[x.name] = ci
	}
	info := &pb.CollectionInfo{ID: c.id, Schema: &schemapb.CollectionSchema{Name: c.name}, State: pb.CollectionState_CollectionCreated}
	for _, s := range c.shards {
		info.PhysicalChannelNames = append(info.PhysicalChannelNames, s.srcP)
		info.VirtualChannelNames = append(info.VirtualChannelNames, s.srcV)
		info.StartPositions = append(info.StartPositions, &commonpb.KeyDataPair{Key: s.srcP, Data: []byte("start")})
	}
	return w.mgr.StartReadCollection(w.ctx, w.db, info, nil, nil)
}

func (w *c04World) c02Feed(c c02Coll, s c02Shard, m msgstream.TsMsg, ts uint64) bool {
	st := w.streams.chans[s.srcV]
	if st == nil {
		return false
	}
	pos := rPos(s.srcV, "m-"+c.name, ts)
	st <- &msgstream.MsgPack{BeginTs: ts, EndTs: ts, Msgs: []msgstream.TsMsg{m}, StartPositions: []*msgpb.MsgPosition{pos}, EndPositions: []*msgpb.MsgPosition{pos}}
	return true
}

// VerifC02_WaitChannelRouting: collection a (one shard src-dml_0 -> tgt-dml_1) is started
// first; collection b has two shards src-dml_0 -> tgt-dml_0 and src-dml_1 -> tgt-dml_1. b's
// first shard joins a's handler (its packs are forwarded), b's second shard finds tgt-dml_1
// taken, waits, and is handed tgt-dml_0 - so its own packs take the forward path to the
// handler that owns tgt-dml_1. The mirrored start order (b first) is the other choice.
func VerifC02_WaitChannelRouting() {
	w := c04NewRealWorld(2)
	a := c02MkColl(100, 900, "A", [2]string{"src-dml_0", "tgt-dml_1"})
	b := c02MkColl(200, 920, "B", [2]string{"src-dml_0", "tgt-dml_0"}, [2]string{"src-dml_1", "tgt-dml_1"})
	cs := []c02Coll{a, b}
	if vBool("startBFirst") {
		cs = []c02Coll{b, a}
	}
	for _, c := range cs {
		vAssert(w.c02Start(cs, c) == nil, "C02.start-ok")
		for i := 0; i < 4; i++ {
			vQuiesce()
		}
	}
	for i := 0; i < 4; i++ {
		vQuiesce()
	}
	want := map[string]string{} // downstream vchannel -> downstream pchannel hosting it
	n := 0
	for _, c := range cs {
		for _, s := range c.shards {
			ts := vU64("ts." + s.srcV)
			vAssume(vAnd(ts >= 100, ts < c03Lim))
			ins := rInsert(c.id, 0, "_default", s.srcV, ts, rPos(s.srcV, "m-"+c.name, ts), 1)
			ins.CollectionName = c.name
			ok := w.c02Feed(c, s, ins, ts)
			vAssert(ok, "C02.stream-of-every-shard-is-opened")
			if !ok {
				return
			}
			want[s.tgtV] = s.tgtP
			n++
			for i := 0; i < 10; i++ {
				vQuiesce()
			}
		}
	}
	vAssert(len(w.events(api.ReplicateError)) == 0, "C02.no-error")
	seen := map[string]int{}
	for _, p := range []string{"tgt-dml_0", "tgt-dml_1"} {
		ch := w.mgr.GetMsgChan(p)
		for ch != nil && len(ch) > 0 {
			o := <-ch
			for _, m := range o.MsgPack.Msgs {
				ins, ok := m.(*msgstream.InsertMsg)
				if !ok {
					continue
				}
				host, known := want[ins.ShardName]
				vAssert(known, "C02.message-re-addressed-to-the-downstream-collection-and-shard")
				if !known {
					continue
				}
				seen[ins.ShardName]++
				vAssert(host == p, "C02.pack-arrives-on-the-downstream-channel-hosting-its-shard")
				for _, pos := range o.MsgPack.EndPositions {
					vAssert(pos.ChannelName == p, "C02.pack-positions-name-the-delivering-downstream-channel")
				}
				var c *c02Coll
				for i := range cs {
					if cs[i].name == o.CollectionName {
						c = &cs[i]
					}
				}
				vAssert(c != nil && o.CollectionID == c.id && ins.CollectionID == c.tid, "C02.emitted-pack-labelled-with-its-own-collection")
			}
		}
	}
	for v := range want {
		vAssert(seen[v] == 1, "C02.every-shard's-insert-is-emitted-once")
	}
	vReach("end")
}

// VerifC01_ForwardOrderRealPlumbing: collection A (src-dml_0 -> tgt-dml_0) creates the
// handler of src-dml_0; collection B (src-dml_0 -> tgt-dml_1) joins it, so B's packs are
// forwarded to the handler owning tgt-dml_1 - which does not exist until collection C
// (src-dml_1 -> tgt-dml_1) is started. B's first pack (an insert) is read BEFORE C is
// started (forwardMsg finds no handler and backs off), its second pack (a delete of the
// same key, later source time) after. Both must reach the output stream of tgt-dml_1 in
// the order read, once each.
func VerifC01_ForwardOrderRealPlumbing() {
	w := c04NewRealWorld(2)
	w.mgr.retryOptions = util.GetRetryOptions(config.RetrySettings{RetryTimes: 3, InitBackOff: 1, MaxBackOff: 1})
	a := c02MkColl(100, 900, "A", [2]string{"src-dml_0", "tgt-dml_0"})
	b := c02MkColl(200, 920, "B", [2]string{"src-dml_0", "tgt-dml_1"})
	c := c02MkColl(300, 930, "C", [2]string{"src-dml_1", "tgt-dml_1"})
	cs := []c02Coll{a, b, c}
	for _, x := range []c02Coll{a, b} {
		vAssert(w.c02Start(cs, x) == nil, "C01.start-ok")
		for i := 0; i < 4; i++ {
			vQuiesce()
		}
	}
	t1, t2 := vU64("ts.first"), vU64("ts.second")
	vAssume(vAnd(vAnd(t1 >= 100, t1 < t2), t2 < c03Lim))
	sb := b.shards[0]
	m1 := rInsert(b.id, 0, "_default", sb.srcV, t1, rPos(sb.srcV, "m1", t1), 1)
	m1.CollectionName = b.name
	m2 := rDelete(b.id, 0, "_default", sb.srcV, t2, rPos(sb.srcV, "m2", t2), 1)
	m2.CollectionName = b.name
	if !w.c02Feed(b, sb, m1, t1) {
		vAssert(false, "C01.stream-of-every-shard-is-opened")
		return
	}
	vQuiesce() // first look-up of the forward handler fails; the reader backs off
	late := vBool("forwardHandlerStartedLate")
	if late {
		vAssert(w.c02Start(cs, c) == nil, "C01.start-ok")
		vQuiesce()
	}
	w.c02Feed(b, sb, m2, t2)
	if !late {
		vAssert(w.c02Start(cs, c) == nil, "C01.start-ok")
	}
	for i := 0; i < 12; i++ {
		vQuiesce()
	}
	vAssert(len(w.events(api.ReplicateError)) == 0, "C01.no-error")
	var order []int
	for _, p := range []string{"tgt-dml_0", "tgt-dml_1"} {
		ch := w.mgr.GetMsgChan(p)
		for ch != nil && len(ch) > 0 {
			o := <-ch
			for _, m := range o.MsgPack.Msgs {
				switch x := m.(type) {
				case *msgstream.InsertMsg:
					if x == m1 {
						order = append(order, 1)
						vAssert(p == "tgt-dml_1" && o.CollectionID == b.id && o.PChannelName == sb.srcP, "C01.pack-labelled-with-its-stream")
					}
				case *msgstream.DeleteMsg:
					if x == m2 {
						order = append(order, 2)
						vAssert(p == "tgt-dml_1" && o.CollectionID == b.id && o.PChannelName == sb.srcP, "C01.pack-labelled-with-its-stream")
					}
				}
			}
		}
	}
	vAssert(len(order) == 2, "C01.every-read-message-is-emitted-once")
	if len(order) == 2 {
		vAssert(order[0] == 1 && order[1] == 2, "C01.packs-of-one-stream-are-handed-over-in-the-order-read")
	}
	vReach("end")
}

// ---- C16 on the manager: assignments made through startReadChannel / waitChannel / forwardChannel ----

func c16Chan(side string, i int) string { return side + "-dml_" + string(rune('0'+i)) }

// c16Assigned: the downstream channels the mapping table holds for a source channel
// (read through the table's own exported query)
func (w *c04World) c16Assigned(n int, src string) []string {
	var out []string
	for t := 0; t < n; t++ {
		if w.mgr.channelMapping.CheckKeyExist(src, c16Chan("tgt", t)) {
			out = append(out, c16Chan("tgt", t))
		}
	}
	return out
}

// VerifC16_ManagerAssignments: N source and N downstream channels (equal counts: the
// assignment must be one-to-one). K one-shard collections are started one after the other
// on the REAL manager, each on a (source channel, downstream channel) pair chosen freely -
// including pairs that make a handler wait for a free downstream channel and pairs that
// offer one. After every start: every source channel has at most one downstream channel,
// an assignment once made never changes, and no downstream channel serves more than one
// source channel.
func VerifC16_ManagerAssignments() {
	N, K := vParam("N", 3), vParam("K", 5)
	w := c04NewRealWorld(N)
	assigned := map[string]string{}
	var cs []c02Coll
	for k := 0; k < K; k++ {
		s, t := 0, 0
		if k > 0 || vParam("FIXFIRST", 0) == 0 {
			// (FIXFIRST: the first offer is (source 0, downstream 0) - a bound, justified by the
			// symmetry of the channel names only informally)
			s, t = vChoice("offer.source", vParam("NS", 2)), vChoice("offer.target", N)
		}
		id := int64(100 + 10*k)
		c := c02MkColl(id, id+800, "C"+string(rune('0'+k)), [2]string{c16Chan("src", s), c16Chan("tgt", t)})
		cs = append(cs, c)
		vAssert(w.c02Start(cs, c) == nil, "C16.start-ok")
		for i := 0; i < 6; i++ {
			vQuiesce()
		}
		w.mgr.channelLock.Lock()
		used := map[string]int{}
		for i := 0; i < N; i++ {
			src := c16Chan("src", i)
			got := w.c16Assigned(N, src)
			vAssert(len(got) <= 1, "C16.a-source-channel-has-at-most-one-downstream-channel")
			if len(got) == 0 {
				_, was := assigned[src]
				vAssert(!was, "C16.an-assignment-never-disappears")
				continue
			}
			if prev, was := assigned[src]; was {
				vAssert(prev == got[0], "C16.an-assignment-never-changes-once-made")
			}
			assigned[src] = got[0]
			used[got[0]]++
		}
		for _, n := range used {
			vAssert(n <= 1, "C16.equal-counts-give-a-one-to-one-assignment")
		}
		w.mgr.channelLock.Unlock()
	}
	vAssert(len(w.events(api.ReplicateError)) == 0, "C16.no-error")
	vReach("end")
}

// c16CheckTable: the manager's mapping table against the assignments seen so far
func (w *c04World) c16CheckTable(N int, assigned map[string]string) {
	w.mgr.channelLock.Lock()
	used := map[string]int{}
	for i := 0; i < N; i++ {
		src := c16Chan("src", i)
		got := w.c16Assigned(N, src)
		vAssert(len(got) <= 1, "C16.a-source-channel-has-at-most-one-downstream-channel")
		if len(got) == 0 {
			_, was := assigned[src]
			vAssert(!was, "C16.an-assignment-never-disappears")
			continue
		}
		if prev, was := assigned[src]; was {
			vAssert(prev == got[0], "C16.an-assignment-never-changes-once-made")
		}
		assigned[src] = got[0]
		used[got[0]]++
	}
	for _, n := range used {
		vAssert(n <= 1, "C16.equal-counts-give-a-one-to-one-assignment")
	}
	w.mgr.channelLock.Unlock()
}

// VerifC16_RepeatedOffers: equal counts (N = 3). Source channel 0 is assigned downstream
// channel 0; then collections on source channel 0 whose shards the downstream placed on other
// channels make the manager OFFER those free downstream channels - the same free channel
// possibly several times before anybody waits for one; then the other source channels arrive,
// paired with an occupied downstream channel, wait and take the offers. However often a free
// channel was offered it may be handed out once.
func VerifC16_RepeatedOffers() {
	N := 3
	w := c04NewRealWorld(N)
	assigned := map[string]string{}
	var cs []c02Coll
	k := 0
	start := func(s, t int) {
		id := int64(100 + 10*k)
		c := c02MkColl(id, id+800, "C"+string(rune('0'+k)), [2]string{c16Chan("src", s), c16Chan("tgt", t)})
		k++
		cs = append(cs, c)
		vAssert(w.c02Start(cs, c) == nil, "C16.start-ok")
		for i := 0; i < 6; i++ {
			vQuiesce()
		}
		w.c16CheckTable(N, assigned)
	}
	start(0, 0)
	offers := 1 + vChoice("offers", 3)
	for i := 0; i < offers; i++ {
		start(0, 1+vChoice("offered.target", 2))
	}
	// the waiters: source channels 1 and 2, each paired with an occupied downstream channel
	start(1, 0)
	start(2, vChoice("lastWaiter.pairedWith", 2))
	vAssert(len(w.events(api.ReplicateError)) == 0, "C16.no-error")
	vReach("end")
}
