//go:build verif

package meta

// C17 on the real etcd replicate store (core/meta/etcd_store.go: Get / Put / Remove with their
// key construction and options) over a modelled etcd (string-keyed map; WithPrefix selects the
// keys having the prefix; a plain key selects that key only).

import (
	"context"
	"strings"

	clientv3 "go.etcd.io/etcd/client/v3"

	"github.com/zilliztech/milvus-cdc/core/api"
)

var c17Prefix bool

func c17WithPrefix() clientv3.OpOption { return func(op *clientv3.Op) { c17Prefix = true } }

func c17HasPrefixOpt(opts []clientv3.OpOption) bool {
	if !vSymbolic() {
		return len(clientv3.OpGet("k", opts...).RangeBytes()) > 0
	}
	c17Prefix = false
	var op clientv3.Op
	for _, o := range opts {
		o(&op)
	}
	return c17Prefix
}

type c17KV struct {
	clientv3.KV
	keys []string
	data map[string]string
}

func c17NewOf[T any](_ []*T) *T { return new(T) }

func (e *c17KV) sel(key string, prefix bool) []string {
	var r []string
	for _, k := range e.keys {
		if _, ok := e.data[k]; ok && (k == key || (prefix && strings.HasPrefix(k, key))) {
			r = append(r, k)
		}
	}
	return r
}

func (e *c17KV) Get(ctx context.Context, key string, opts ...clientv3.OpOption) (*clientv3.GetResponse, error) {
	resp := &clientv3.GetResponse{}
	for _, k := range e.sel(key, c17HasPrefixOpt(opts)) {
		kv := c17NewOf(resp.Kvs)
		kv.Key, kv.Value = []byte(k), []byte(e.data[k])
		resp.Kvs = append(resp.Kvs, kv)
	}
	return resp, nil
}

func (e *c17KV) Put(ctx context.Context, key, val string, opts ...clientv3.OpOption) (*clientv3.PutResponse, error) {
	known := false
	for _, k := range e.keys {
		known = known || k == key
	}
	if !known {
		e.keys = append(e.keys, key)
	}
	e.data[key] = val
	return &clientv3.PutResponse{}, nil
}

func (e *c17KV) Delete(ctx context.Context, key string, opts ...clientv3.OpOption) (*clientv3.DeleteResponse, error) {
	for _, k := range e.sel(key, c17HasPrefixOpt(opts)) {
		delete(e.data, k)
	}
	return &clientv3.DeleteResponse{}, nil
}

type c17EtcdBackend struct {
	*EtcdReplicateStore
}

func c17NewEtcdBackend() *c17EtcdBackend {
	kv := &c17KV{data: map[string]string{}}
	return &c17EtcdBackend{&EtcdReplicateStore{client: &clientv3.Client{KV: kv}, rootPath: "root"}}
}

// lookup reads one record back through the real store (exact key)
func (b *c17EtcdBackend) lookup(key string) (api.MetaMsg, bool) {
	r, err := b.Get(context.Background(), key, false)
	if err != nil || len(r) != 1 {
		return api.MetaMsg{}, false
	}
	return r[0], true
}

func c17PrefixSlots() []*c17Slot {
	return []*c17Slot{
		{part: false, task: "t0", msg: "drop-collection-1"},
		{part: false, task: "t0", msg: "drop-collection-10"},
		{part: true, task: "t0", msg: "drop-partition-1-7"},
		{part: true, task: "t0", msg: "drop-partition-1-70"},
	}
}
