//go:build verif

package meta

// C17 harness: drop-message readiness accumulates across shards, persists, is
// removable. Real code: all of core/meta/meta.go, api.BaseTaskMsg.IsReady,
// api.{TaskDropCollectionMsg,TaskDropPartitionMsg}.ConvertToMetaMsg,
// api.GetTaskDrop*Msg.

import (
	"context"
	"strings"

	"github.com/zilliztech/milvus-cdc/core/api"
)

// c17Store is an in-memory api.ReplicateStore with value semantics (what is put
// is a copy, what is read is a copy - as with a serialising backend).
type c17Store struct {
	data map[string]api.MetaMsg
}

func c17CopyMeta(m api.MetaMsg) api.MetaMsg {
	c := m
	c.Base.TargetChannels = append([]string(nil), m.Base.TargetChannels...)
	c.Base.ReadyChannels = append([]string(nil), m.Base.ReadyChannels...)
	c.Data = map[string]interface{}{}
	for k, v := range m.Data {
		c.Data[k] = v
	}
	return c
}

func (s *c17Store) Get(ctx context.Context, key string, withPrefix bool) ([]api.MetaMsg, error) {
	var r []api.MetaMsg
	for k, v := range s.data {
		if k == key || (withPrefix && strings.HasPrefix(k, key)) {
			r = append(r, c17CopyMeta(v))
		}
	}
	return r, nil
}

func (s *c17Store) Put(ctx context.Context, key string, value api.MetaMsg) error {
	s.data[key] = c17CopyMeta(value)
	return nil
}

func (s *c17Store) Remove(ctx context.Context, key string) error {
	delete(s.data, key)
	return nil
}

// lookup: the stored record of a key (what a fresh process would read back)
func (s *c17Store) lookup(key string) (api.MetaMsg, bool) {
	v, ok := s.data[key]
	return v, ok
}

// c17Backend: the store behind the implementation plus a way to read one record back
type c17Backend interface {
	api.ReplicateStore
	lookup(key string) (api.MetaMsg, bool)
}

// ---- set helpers over symbolic strings (no forking) ----

func c17In(x string, set []string) bool {
	r := false
	for _, y := range set {
		r = vOr(r, x == y)
	}
	return r
}

func c17Subset(a, b []string) bool {
	r := true
	for _, x := range a {
		r = vAnd(r, c17In(x, b))
	}
	return r
}

func c17SameSet(a, b []string) bool { return vAnd(c17Subset(a, b), c17Subset(b, a)) }

// ---- slots ----

type c17Slot struct {
	part    bool   // partition drop (else collection drop)
	task    string // concrete ids: the quantifier is over report histories
	msg     string
	present bool
	ready   []string // reference: union of all reports so far
}

func (sl *c17Slot) base(target, ready []string) api.BaseTaskMsg {
	return api.BaseTaskMsg{TaskID: sl.task, MsgID: sl.msg,
		TargetChannels: append([]string(nil), target...), ReadyChannels: append([]string(nil), ready...)}
}

// c17Targets: the target shard set. Names are concrete and distinct; which shard
// reports (and which shards reported before) stays symbolic.
func c17Targets(S, L int) []string {
	return []string{"ch-a", "ch-b", "ch-c", "ch-d"}[:S]
}

func c17Slots() []*c17Slot {
	return []*c17Slot{
		{part: false, task: "t0", msg: "drop-collection-1"},
		{part: false, task: "t0", msg: "drop-collection-2"},
		{part: true, task: "t0", msg: "drop-partition-1-7"},
		{part: true, task: "t1", msg: "drop-partition-1-7"},
	}
}

func c17Report(impl *ReplicateMeteImpl, sl *c17Slot, target, ready []string) (bool, error) {
	ctx := context.Background()
	if sl.part {
		return impl.UpdateTaskDropPartitionMsg(ctx, api.TaskDropPartitionMsg{Base: sl.base(target, ready), DatabaseName: "db", CollectionName: "c", PartitionName: "p", DropTS: 99})
	}
	return impl.UpdateTaskDropCollectionMsg(ctx, api.TaskDropCollectionMsg{Base: sl.base(target, ready), DatabaseName: "db", CollectionName: "c", DropTS: 99})
}

// c17Mem returns the in-memory record of a slot through the public getters.
func c17Mem(impl *ReplicateMeteImpl, sl *c17Slot) (api.BaseTaskMsg, bool) {
	ctx := context.Background()
	if sl.part {
		r, err := impl.GetTaskDropPartitionMsg(ctx, sl.task, sl.msg)
		if err != nil || len(r) != 1 {
			return api.BaseTaskMsg{}, false
		}
		return r[0].Base, true
	}
	r, err := impl.GetTaskDropCollectionMsg(ctx, sl.task, sl.msg)
	if err != nil || len(r) != 1 {
		return api.BaseTaskMsg{}, false
	}
	return r[0].Base, true
}

// c17CheckAll: memory == store == reference for every slot.
func c17CheckAll(impl *ReplicateMeteImpl, st c17Backend, slots []*c17Slot, target []string, tag string) {
	for _, sl := range slots {
		mem, inMem := c17Mem(impl, sl)
		sv, inStore := st.lookup(GetMetaKey(sl.task, sl.msg))
		vAssert(inMem == sl.present, "C17.memory-has-exactly-the-live-messages"+tag)
		vAssert(inStore == sl.present, "C17.store-has-exactly-the-live-messages"+tag)
		if !sl.present || !inMem || !inStore {
			continue
		}
		vAssert(c17SameSet(mem.ReadyChannels, sl.ready), "C17.memory-ready-set-is-union-of-reports"+tag)
		vAssert(c17SameSet(sv.Base.ReadyChannels, sl.ready), "C17.store-ready-set-is-union-of-reports"+tag)
		vAssert(c17SameSet(mem.TargetChannels, target), "C17.memory-target-set-kept"+tag)
		wantType := api.DropCollectionMetaMsgType
		if sl.part {
			wantType = api.DropPartitionMetaMsgType
		}
		vAssert(sv.Type == wantType, "C17.store-record-kind"+tag)
	}
}

func c17Step(impl *ReplicateMeteImpl, st c17Backend, slots []*c17Slot, target []string, L int) *ReplicateMeteImpl {
	switch vChoice("op", 3) {
	case 0: // a shard reports the pending drop
		sl := slots[vChoice("slot", len(slots))]
		shard := vStr("reportingShard", L)
		vAssume(c17In(shard, target))
		ready, err := c17Report(impl, sl, target, []string{shard})
		vAssert(err == nil, "C17.report-accepted")
		sl.present = true
		sl.ready = append(sl.ready, shard)
		vAssert(ready == c17SameSet(sl.ready, target), "C17.ready-exactly-when-union-equals-target")
	case 1: // the drop was replayed downstream: remove the message
		sl := slots[vChoice("slot", len(slots))]
		err := impl.RemoveTaskMsg(context.Background(), sl.task, sl.msg)
		vAssert(err == nil, "C17.remove-accepted")
		sl.present = false
		sl.ready = nil
	case 2: // restart: a fresh implementation reloads from the store
		fresh, err := NewReplicateMetaImpl(st)
		vAssert(err == nil, "C17.reload-accepted")
		impl = fresh
	}
	return impl
}

// VerifC17_History: K operations from an empty store.
func VerifC17_History() {
	K, S, L := vParam("K", 3), vParam("S", 3), vParam("L", 2)
	target := c17Targets(S, L)
	var st c17Backend = &c17Store{data: map[string]api.MetaMsg{}}
	slots := c17Slots()[:vParam("slots", 4)]
	if vParam("ETCD", 0) == 1 {
		// the real etcd replicate store over a modelled etcd; message ids that are string
		// prefixes of one another (drop-collection-1 / drop-collection-10)
		st = c17NewEtcdBackend()
		slots = c17PrefixSlots()
	}
	impl, err := NewReplicateMetaImpl(st)
	vAssert(err == nil, "C17.new-on-empty-store")
	for k := 0; k < K; k++ {
		impl = c17Step(impl, st, slots, target, L)
		c17CheckAll(impl, st, slots, target, "")
	}
	vReach("end")
}

// VerifC17_Step: inductive step. Arbitrary consistent state (every slot absent or
// present with an arbitrary set of up to N reported shards, identical in memory
// and store, built through the real reload path), then one operation.
func VerifC17_Step() {
	S, L, N := vParam("S", 3), vParam("L", 2), vParam("N", 2)
	target := c17Targets(S, L)
	st := &c17Store{data: map[string]api.MetaMsg{}}
	slots := c17Slots()[:vParam("slots", 2)]
	for _, sl := range slots {
		n := vChoice("pre.reports", N+2) // 0 = absent, k = k-1 ... see below
		if n == 0 {
			continue
		}
		sl.present = true
		for i := 0; i < n; i++ {
			shard := vStr("pre.shard", L)
			vAssume(c17In(shard, target))
			vAssume(!c17In(shard, sl.ready)) // stored ready lists are duplicate-free (lo.Union)
			sl.ready = append(sl.ready, shard)
		}
		var mm api.MetaMsg
		if sl.part {
			mm, _ = api.TaskDropPartitionMsg{Base: sl.base(target, sl.ready), DatabaseName: "db", CollectionName: "c", PartitionName: "p", DropTS: 99}.ConvertToMetaMsg()
		} else {
			mm, _ = api.TaskDropCollectionMsg{Base: sl.base(target, sl.ready), DatabaseName: "db", CollectionName: "c", DropTS: 99}.ConvertToMetaMsg()
		}
		st.data[GetMetaKey(sl.task, sl.msg)] = mm
	}
	impl, err := NewReplicateMetaImpl(st)
	vAssert(err == nil, "C17.reload-accepted")
	c17CheckAll(impl, st, slots, target, ":after-reload")
	impl = c17Step(impl, st, slots, target, L)
	c17CheckAll(impl, st, slots, target, "")
	vReach("end")
}

// VerifC17_EtcdHistory: the histories of VerifC17_History on the real etcd replicate store
func VerifC17_EtcdHistory() { VerifC17_History() }
