//go:build verif

package server

// C06, server half: a failure while replicating pauses exactly the owning task.
// Real code: startReplicateAPIEvent, startReplicateDMLChannel, startReplicateDMLMsg
// (with the packer and replicateMsgsFunc), the op-message dataHandleFunc of
// getChannelReader, the collection reader error goroutine of startInternal,
// WriteCallback.*, store.UpdateTaskCollectionPosition / UpdateTaskState,
// pauseTaskWithReason, isRunningTask, Get.

import (
	"context"
	"errors"

	"github.com/milvus-io/milvus-proto/go-api/v2/commonpb"
	"github.com/milvus-io/milvus-proto/go-api/v2/milvuspb"
	"github.com/milvus-io/milvus-proto/go-api/v2/msgpb"
	"github.com/milvus-io/milvus/pkg/mq/msgstream"

	coreapi "github.com/zilliztech/milvus-cdc/core/api"
	"github.com/zilliztech/milvus-cdc/server/model/meta"
)

// c06AssertPausedAlone: task A is paused with a visible reason and stopped; B is untouched.
func c06AssertPausedAlone(fl *sFlow, tag string) {
	st, reason, ok := fl.memState(fl.a)
	vAssert(ok && st == meta.TaskStatePaused, "C06.failing-task-is-paused-in-memory"+tag)
	vAssert(reason != "", "C06.pause-has-a-reason"+tag)
	as, ar, aok := fl.apiState(fl.a)
	vAssert(aok && as == meta.TaskStatePaused.String() && ar != "", "C06.paused-state-and-reason-visible-through-get"+tag)
	vAssert(fl.w.activeReaders(fl.a) == 0, "C06.failing-task-stops-reading"+tag)
	c06AssertUntouched(fl, fl.b, tag)
}

func c06AssertUntouched(fl *sFlow, id string, tag string) {
	st, reason, ok := fl.memState(id)
	vAssert(ok && st == meta.TaskStateRunning && reason == "", "C06.other-task-keeps-running"+tag)
	as, _, aok := fl.apiState(id)
	vAssert(aok && as == meta.TaskStateRunning.String(), "C06.other-task-reported-running"+tag)
	vAssert(fl.w.activeReaders(id) == 2, "C06.other-task-keeps-its-readers"+tag)
}

// VerifC06_PackFailure: packs of A and B on the downstream channel(s); the write of one
// pack of A is rejected, or the checkpoint write after a batch of A fails.
func VerifC06_PackFailure() {
	fl := sNewFlowBatch(vBool("sameTarget"), 1+vChoice("batchSize", 2))
	fl.w.f.faultOn = "pos" // the store rejects a CHECKPOINT; the state update of the pause that follows goes through
	K := vParam("K", 2)
	fl.writer.canFail = true
	fl.w.f.faults, fl.w.f.nFault = vBool("storeMayFail"), 0
	// packs of A with increasing ids, interleaved with one pack of B
	ackedBefore := ""
	failed := false
	for k := 0; k < K && !failed; k++ {
		id := "a" + string(rune('1'+k))
		nAck, nRej := len(fl.writer.acks), len(fl.writer.rejected)
		nf := fl.w.f.nFault
		fl.ch <- sPack(fl.a, 1, "a", id, uint64(100+k), true)
		vQuiesce()
		// flush whatever the batcher still holds by letting its timer / count decide: the
		// pack is either written now or stays buffered (nothing is asserted on WHEN)
		rejected := len(fl.writer.rejected) > nRej
		storeFault := fl.w.f.nFault > nf
		if rejected || storeFault {
			failed = true
			pos, has := fl.storedPos(fl.a, 1)
			vAssert(vImplies(has, pos == ackedBefore), "C06.checkpoint-stays-at-the-last-acknowledged-pack")
			vAssert(vImplies(!has, ackedBefore == ""), "C06.checkpoint-stays-at-the-last-acknowledged-pack")
			break
		}
		if len(fl.writer.acks) > nAck {
			if pos, has := fl.storedPos(fl.a, 1); has {
				ackedBefore = pos
			}
		}
	}
	fl.writer.canFail = false
	fl.w.f.faults = false
	if !failed {
		c06AssertUntouched(fl, fl.a, ":no-failure")
		c06AssertUntouched(fl, fl.b, ":no-failure")
		vReach("end")
		return
	}
	c06AssertPausedAlone(fl, ":pack")
	// the failing task emits nothing more: a further pack of A is not written
	nAck := len(fl.writer.acks)
	posBefore, hadPos := fl.storedPos(fl.a, 1)
	fl.ch <- sPack(fl.a, 1, "a", "a9", 900, true)
	vQuiesce()
	for _, ack := range fl.writer.acks[nAck:] {
		vAssert(string(ack.pack.EndPositions[0].MsgID) != "a9", "C06.paused-task-writes-nothing-more")
	}
	posAfter, hasPos := fl.storedPos(fl.a, 1)
	vAssert(hadPos == hasPos && posBefore == posAfter, "C06.paused-task-checkpoint-does-not-move")
	// exactly the failing task is paused: the other task's data still reaches the downstream
	nB := len(fl.bWriter.acks)
	for i := 0; i < 2; i++ { // enough packs to fill a batch
		fl.bCh <- sPack(fl.b, 2, "b", "b"+string(rune('1'+i)), uint64(950+i), true)
		vQuiesce()
	}
	// Known finding C06-shared-channel-stalls-other-task: when both tasks share the target (one
	// replicate entity, one goroutine per downstream channel) that goroutine ends with the
	// failing task, so the other task's packs on the channel are never written again
	vKnown("C06-shared-channel-stalls-other-task", fl.bCh == fl.ch)
	vAssert(len(fl.bWriter.acks) > nB, "C06.other-task-keeps-replicating")
	vReach("end")
}

// VerifC06_EventFailure: an API event of A (create collection / drop collection / create
// partition) fails at the downstream, or its checkpoint write fails; or the reader
// reports a stream error event for A.
func VerifC06_EventFailure() {
	fl := sNewFlow(vBool("sameTarget"))
	fl.w.f.faultOn = "pos" // the store rejects a CHECKPOINT; the state update of the pause that follows goes through
	kind := vChoice("event", 4)
	var ev *coreapi.ReplicateAPIEvent
	switch kind {
	case 0:
		ev = &coreapi.ReplicateAPIEvent{EventType: coreapi.ReplicateCreateCollection, TaskID: fl.a, CollectionInfo: sCollInfo(1, "a", 5<<18)}
	case 1:
		ev = &coreapi.ReplicateAPIEvent{EventType: coreapi.ReplicateDropCollection, TaskID: fl.a, CollectionInfo: sCollInfo(1, "a", 5<<18)}
	case 2:
		ev = &coreapi.ReplicateAPIEvent{EventType: coreapi.ReplicateCreatePartition, TaskID: fl.a, CollectionInfo: sCollInfo(1, "a", 5<<18)}
	case 3:
		ev = &coreapi.ReplicateAPIEvent{EventType: coreapi.ReplicateError, TaskID: fl.a, Error: errors.New("stream error")}
	}
	if kind == 1 {
		// the collection was replicated before it is dropped: it has a checkpoint record
		fl.mgr.eventChan <- &coreapi.ReplicateAPIEvent{EventType: coreapi.ReplicateCreateCollection, TaskID: fl.a, CollectionInfo: sCollInfo(1, "a", 5<<18)}
		vQuiesce()
	}
	fl.writer.canFail = kind != 3
	fl.w.f.faults, fl.w.f.nFault = kind != 3 && vBool("storeMayFail"), 0
	nEv := len(fl.writer.events)
	fl.mgr.eventChan <- ev
	vQuiesce()
	handled := len(fl.writer.events) > nEv
	faulted := fl.w.f.nFault > 0
	fl.writer.canFail, fl.w.f.faults = false, false
	if kind != 3 && handled && !faulted {
		// the event went through: nobody is paused
		c06AssertUntouched(fl, fl.a, ":event-ok")
		c06AssertUntouched(fl, fl.b, ":event-ok")
		vReach("end")
		return
	}
	c06AssertPausedAlone(fl, ":event")
	// the other task's events are still replayed
	nB := len(fl.bWriter.events)
	fl.bMgr.eventChan <- &coreapi.ReplicateAPIEvent{EventType: coreapi.ReplicateCreatePartition, TaskID: fl.b, CollectionInfo: sCollInfo(2, "b", 6<<18)}
	vQuiesce()
	vKnown("C06-shared-channel-stalls-other-task", fl.bMgr == fl.mgr)
	vAssert(len(fl.bWriter.events) > nB, "C06.other-task-keeps-replicating")
	vReach("end")
}

// VerifC06_OpFailure: an op message (DDL / RBAC request on the replicate channel) of A is
// rejected by the downstream, or its checkpoint write fails.
func VerifC06_OpFailure() {
	fl := sNewFlow(vBool("sameTarget"))
	fl.w.f.faultOn = "pos" // the store rejects a CHECKPOINT; the state update of the pause that follows goes through
	var rd *sReader
	for _, r := range fl.w.chanRds {
		if r.taskID == fl.a {
			rd = r
		}
	}
	vAssert(rd != nil && rd.handle != nil, "C06.harness:channel-reader-of-A")
	if rd == nil {
		return
	}
	pos := &msgpb.MsgPosition{ChannelName: "by-dev-replicate-msg", MsgID: []byte("op1"), Timestamp: 7 << 18}
	base := msgstream.BaseMsg{BeginTimestamp: 7 << 18, EndTimestamp: 7 << 18, HashValues: []uint32{0}, MsgPosition: pos}
	pack := &msgstream.MsgPack{BeginTs: 7 << 18, EndTs: 7 << 18, StartPositions: []*msgpb.MsgPosition{pos}, EndPositions: []*msgpb.MsgPosition{pos},
		Msgs: []msgstream.TsMsg{&msgstream.CreateIndexMsg{BaseMsg: base, CreateIndexRequest: &milvuspb.CreateIndexRequest{Base: &commonpb.MsgBase{MsgType: commonpb.MsgType_CreateIndex}, DbName: "default", CollectionName: "a"}}}}
	fl.writer.canFail = true
	fl.w.f.faults, fl.w.f.nFault = vBool("storeMayFail"), 0
	nOps := len(fl.writer.ops)
	goOn := rd.handle(context.Background(), pack)
	vQuiesce()
	handled := len(fl.writer.ops) > nOps
	faulted := fl.w.f.nFault > 0
	fl.writer.canFail, fl.w.f.faults = false, false
	if handled && !faulted {
		vAssert(goOn, "C06.accepted-op-message-continues-the-stream")
		c06AssertUntouched(fl, fl.a, ":op-ok")
		c06AssertUntouched(fl, fl.b, ":op-ok")
		vReach("end")
		return
	}
	vAssert(!goOn, "C06.failed-op-message-stops-the-stream")
	c06AssertPausedAlone(fl, ":op")
	vReach("end")
}
