//go:build verif

package reader

// C06-H1 (reader side): a message that cannot be processed - unknown collection,
// unknown partition - is reported as an error event naming the stream's task;
// nothing is enqueued and the process does not panic.

import (
	"context"

	"github.com/milvus-io/milvus-proto/go-api/v2/msgpb"
	"github.com/milvus-io/milvus/pkg/mq/msgstream"

	"github.com/zilliztech/milvus-cdc/core/api"
	"github.com/zilliztech/milvus-cdc/core/util"
)

// VerifC06_ReaderFailure
func VerifC06_ReaderFailure() {
	w := c01NewWorld(false)
	ts := vU64("msg.ts")
	vAssume(vAnd(ts >= 1, ts < c03Lim))
	pos := rPos(w.srcVCh, "m0", ts)
	var m msgstream.TsMsg
	scenario := vChoice("scenario", 3)
	switch scenario {
	case 0: // insert for a collection the handler does not know (and that is not dropped)
		m = rInsert(555, 11, "p", w.srcVCh, ts, pos, 1)
	case 1: // insert for a partition the downstream does not have
		delete(w.env.target.parts, "p")
		delete(w.info.PartitionInfo, "p")
		m = rInsert(w.srcColl, w.srcPart, "p", w.srcVCh, ts, pos, 1)
	case 2: // the downstream partition lookup itself fails
		delete(w.info.PartitionInfo, "p")
		w.env.target.canFail = true
		if vBool("deleteNotInsert") {
			m = rDelete(w.srcColl, w.srcPart, "p", w.srcVCh, ts, pos, 1)
		} else {
			m = rInsert(w.srcColl, w.srcPart, "p", w.srcVCh, ts, pos, 1)
		}
	}
	pack := &msgstream.MsgPack{BeginTs: ts, EndTs: ts, Msgs: []msgstream.TsMsg{m},
		StartPositions: []*msgpb.MsgPosition{rPos(w.srcVCh, "start", ts)}, EndPositions: []*msgpb.MsgPosition{rPos(w.srcVCh, "end", ts)}}
	w.env.h.innerHandleReplicateMsg(false, api.GetReplicateMsg(rSrcP, "coll", w.srcColl, pack, "task-7"))
	outs := c01Emitted()
	processed := false
	for _, o := range outs {
		for _, x := range o.MsgPack.Msgs {
			if !rIsTick(x) {
				processed = true
			}
		}
	}
	nEvents := len(w.env.eventChan)
	if processed {
		// the lookup succeeded after all (scenario 2 with a later successful attempt)
		vAssert(scenario == 2 && nEvents == 0, "C06.processed-message-raises-no-error")
	} else {
		vAssert(len(outs) == 0, "C06.failing-message-enqueues-nothing")
		vAssert(nEvents == 1, "C06.exactly-one-error-event")
		if nEvents == 1 {
			ev := <-w.env.eventChan
			vAssert(ev.EventType == api.ReplicateError && ev.Error != nil, "C06.event-is-an-error-event")
			vAssert(ev.TaskID == "task-7", "C06.error-event-names-the-failing-task")
		}
	}
	vReach("end")
}

// VerifC06_ReaderFailureBusyEventQueue: the same failure while the event queue shared by
// all tasks of the target is full (the server is still working through earlier events):
// the error report waits for room, it is not lost.
func VerifC06_ReaderFailureBusyEventQueue() {
	w := c01NewWorld(false)
	for len(w.env.eventChan) < cap(w.env.eventChan) {
		w.env.eventChan <- &api.ReplicateAPIEvent{EventType: api.ReplicateCreatePartition, TaskID: "other-task"}
	}
	ts := vU64("msg.ts")
	vAssume(vAnd(ts >= 1, ts < c03Lim))
	pos := rPos(w.srcVCh, "m0", ts)
	pack := &msgstream.MsgPack{BeginTs: ts, EndTs: ts, Msgs: []msgstream.TsMsg{rInsert(555, 11, "p", w.srcVCh, ts, pos, 1)},
		StartPositions: []*msgpb.MsgPosition{rPos(w.srcVCh, "start", ts)}, EndPositions: []*msgpb.MsgPosition{rPos(w.srcVCh, "end", ts)}}
	w.env.h.handlerOpts.RetryOptions = util.GetRetryOptions(c13Retry()) // give up quickly (natively: well under a second)
	done := make(chan struct{})
	go func() {
		w.env.h.innerHandleReplicateMsg(false, api.GetReplicateMsg(rSrcP, "coll", w.srcColl, pack, "task-7"))
		close(done)
	}()
	// the handler gives up on the message and reports the error while the queue is still full
	for i := 0; i < 14; i++ {
		vQuiesce()
	}
	// then the server takes the queued events one after the other, until the handler is through
	found := false
	check := func(ev *api.ReplicateAPIEvent) {
		if ev.EventType == api.ReplicateError {
			found = true
			vAssert(ev.TaskID == "task-7", "C06.error-event-names-the-failing-task")
		}
	}
	finished := false
	for !finished {
		select {
		case ev := <-w.env.eventChan:
			check(ev)
		case <-done:
			finished = true
		}
	}
	for len(w.env.eventChan) > 0 {
		check(<-w.env.eventChan)
	}
	vAssert(found, "C06.error-event-is-not-lost-when-the-event-queue-is-full")
	vAssert(len(c01Emitted()) == 0, "C06.failing-message-enqueues-nothing")
	vReach("end")
}

// VerifC06_ReaderAfterCancel: the replicate context of the target is already cancelled (its
// last task was paused or deleted) while a pack is still in flight in the handler. Whatever the
// message needs - a partition look-up, a partition barrier that is not registered yet, an
// unknown collection - the handler must not crash the process (the retries it relies on return
// at once, without having run, when the context is done).
func VerifC06_ReaderAfterCancel() {
	w := c01NewWorld(false)
	ctx, cancel := context.WithCancel(context.Background())
	w.env.h.replicateCtx = ctx
	cancel()
	ts := vU64("msg.ts")
	vAssume(vAnd(ts >= 1, ts < c03Lim))
	pos := rPos(w.srcVCh, "m0", ts)
	var m msgstream.TsMsg
	switch vChoice("scenario", 5) {
	case 0: // insert for a partition whose downstream id has to be looked up
		delete(w.info.PartitionInfo, "p")
		m = rInsert(w.srcColl, w.srcPart, "p", w.srcVCh, ts, pos, 1)
	case 1: // delete likewise
		delete(w.info.PartitionInfo, "p")
		m = rDelete(w.srcColl, w.srcPart, "p", w.srcVCh, ts, pos, 1)
	case 2: // drop of a partition whose barrier is not registered (yet)
		m = rDropPartition(w.srcColl, w.srcPart+1, "q", ts, pos)
	case 3: // insert for a collection the handler does not know
		m = rInsert(555, 11, "p", w.srcVCh, ts, pos, 1)
	case 4: // an ordinary insert
		m = rInsert(w.srcColl, w.srcPart, "p", w.srcVCh, ts, pos, 1)
	}
	pack := &msgstream.MsgPack{BeginTs: ts, EndTs: ts, Msgs: []msgstream.TsMsg{m},
		StartPositions: []*msgpb.MsgPosition{rPos(w.srcVCh, "start", ts)}, EndPositions: []*msgpb.MsgPosition{rPos(w.srcVCh, "end", ts)}}
	w.env.h.innerHandleReplicateMsg(false, api.GetReplicateMsg(rSrcP, "coll", w.srcColl, pack, "task-7"))
	vAssert(len(w.env.eventChan) <= 1, "C06.at-most-one-error-event")
	vReach("end")
}
