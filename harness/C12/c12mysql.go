//go:build verif

package store

// C12 harness, MySQL backend. Real code: TaskInfoMysqlStore / TaskCollectionPositionMysqlStore
// (init, Put, Get, Delete - statement text and argument construction), MySQLMetaStore.Txn,
// store.DeleteTask, meta_key.go. Backend contract (assumption, not code): a MySQL server is a
// set of rows per table; the statement shapes the stores emit have their SQL meaning:
//   INSERT ... ON DUPLICATE KEY UPDATE  = upsert by the primary key column (the *_key column)
//   col = ?                             = exact comparison (collations are outside the model)
//   col LIKE 'p'                        = pattern match: % any string, _ any one character,
//                                         \ escapes the next character
//   statements executed on a transaction take effect together at Commit, or not at all;
//   statements executed on the database handle take effect at once (auto-commit).
// A statement the model does not recognise fails the run (inconclusive through an assertion).
//
// Under the executor the database/sql API is redirected to the c12sql* functions below;
// natively the same engine sits behind a real database/sql driver (sql.OpenDB), so the real
// connection pool and transaction plumbing of database/sql are in the loop of every replay.

import (
	"context"
	"database/sql"
	"database/sql/driver"
	"errors"
	"io"

	"go.uber.org/zap"

	coreapi "github.com/zilliztech/milvus-cdc/core/api"
	"github.com/zilliztech/milvus-cdc/server/model/meta"
)

const c12MaxComp = 4 // characters per symbolic component of a statement / key (vChars)

type c12Row struct {
	table    string // "info" | "pos"
	key      string
	taskID   string
	collID   int64
	collName string
	v1, v2, v3 string
}

type c12SQLOp struct {
	q    string
	args []any
}

type c12SQLTx struct {
	ops  []c12SQLOp
	done bool
}

type c12SQL struct {
	rows      []*c12Row
	faults    bool // every engine call may fail on a free boolean (budget maxF)
	nFault    int
	maxF      int
	mutations int
	log       []string
	unknown   int // statements the model did not recognise
}

var c12E *c12SQL

// (database/sql's own ErrTxDone is a global of a package the executor does not initialise)
var c12ErrTxDone = errors.New("sql: transaction has already been committed or rolled back")

func c12NewSQL() *c12SQL {
	c12E = &c12SQL{maxF: 1}
	c12Txs, c12Stmts, c12RowSets = map[*sql.Tx]*c12SQLTx{}, map[*sql.Stmt]*c12StmtState{}, map[*sql.Rows]*c12RowSet{}
	return c12E
}

func (e *c12SQL) fail(what string) bool {
	if !e.faults || e.nFault >= e.maxF {
		return false
	}
	if vBool("sqlfault:" + what) {
		e.nFault++
		e.log = append(e.log, "fault:"+what)
		return true
	}
	return false
}

// ---- LIKE ----

// c12LikeElems turns the characters of a LIKE pattern into pattern elements (kind 0: a
// literal character, 1: any one character, 2: any string), honouring the escape character.
func c12LikeElems(p []string, esc string) ([]int, []string) {
	var kinds []int
	var lits []string
	for i := 0; i < len(p); i++ {
		switch {
		case p[i] == esc && i+1 < len(p):
			i++
			kinds, lits = append(kinds, 0), append(lits, p[i])
		case p[i] == "%":
			kinds, lits = append(kinds, 2), append(lits, "")
		case p[i] == "_":
			kinds, lits = append(kinds, 1), append(lits, "")
		default:
			kinds, lits = append(kinds, 0), append(lits, p[i])
		}
	}
	return kinds, lits
}

func c12HasHead(chars []string, head string) bool {
	if len(chars) < len(head) {
		return false
	}
	for i := 0; i < len(head); i++ {
		if chars[i] != head[i:i+1] {
			return false
		}
	}
	return true
}

func c12Join(chars []string) string {
	s := ""
	for _, c := range chars {
		s += c
	}
	return s
}

const (
	c12InsInfo = "INSERT INTO task_info (task_info_key, task_id, task_info_value) VALUES (?, ?, ?) ON DUPLICATE KEY UPDATE task_info_value = ?"
	c12InsPos  = "INSERT INTO task_position (task_position_key, task_id, collection_id, collection_name, task_position_value, op_position_value, target_position_value) VALUES (?, ?, ?, ?, ?, ?, ?) ON DUPLICATE KEY UPDATE task_position_value = ?, op_position_value = ?, target_position_value = ?"
	c12DelInfo = "DELETE FROM task_info WHERE task_id = ?"
	c12DelPos  = "DELETE FROM task_position WHERE task_id = ?"
	c12DelPosC = "DELETE FROM task_position WHERE task_id = ? AND collection_id = ?"
	c12SelInfo = "SELECT task_info_value FROM task_info WHERE task_info_key LIKE '"
	c12SelPos  = "SELECT task_id, collection_id, collection_name, task_position_value, op_position_value, target_position_value FROM task_position WHERE task_position_key LIKE '"
	// the replicate-message store (task_msg)
	c12InsMsg     = "INSERT INTO task_msg (task_msg_key, task_msg_value) VALUES (?, ?) ON DUPLICATE KEY UPDATE task_msg_value = ?"
	c12DelMsg     = "DELETE FROM task_msg WHERE task_msg_key = ?"
	c12SelMsgEq   = "SELECT task_msg_value FROM task_msg WHERE task_msg_key = ?"
	c12SelMsgLike = "SELECT task_msg_value FROM task_msg WHERE task_msg_key LIKE '"
)

func c12IsCreateTable(q string) bool {
	// the two CREATE TABLE statements are constants of the source
	for i := 0; i+12 <= len(q); i++ {
		if q[i:i+12] == "CREATE TABLE" {
			return true
		}
	}
	return false
}

// apply executes one data-changing statement on the committed rows.
func (e *c12SQL) apply(q string, args []any) error {
	switch q {
	case c12InsInfo:
		key, id, val := args[0].(string), args[1].(string), args[3].(string)
		for _, r := range e.rows {
			if r.table == "info" && r.key == key {
				r.v1 = val // ON DUPLICATE KEY UPDATE task_info_value
				e.mutations++
				return nil
			}
		}
		e.rows = append(e.rows, &c12Row{table: "info", key: key, taskID: id, v1: args[2].(string)})
		e.mutations++
		return nil
	case c12InsPos:
		key := args[0].(string)
		for _, r := range e.rows {
			if r.table == "pos" && r.key == key {
				r.v1, r.v2, r.v3 = args[7].(string), args[8].(string), args[9].(string)
				e.mutations++
				return nil
			}
		}
		e.rows = append(e.rows, &c12Row{table: "pos", key: key, taskID: args[1].(string), collID: args[2].(int64), collName: args[3].(string),
			v1: args[4].(string), v2: args[5].(string), v3: args[6].(string)})
		e.mutations++
		return nil
	case c12InsMsg:
		key := args[0].(string)
		for _, r := range e.rows {
			if r.table == "msg" && r.key == key {
				r.v1 = args[2].(string)
				e.mutations++
				return nil
			}
		}
		e.rows = append(e.rows, &c12Row{table: "msg", key: key, v1: args[1].(string)})
		e.mutations++
		return nil
	case c12DelMsg:
		var keep []*c12Row
		for _, r := range e.rows {
			if !(r.table == "msg" && r.key == args[0].(string)) {
				keep = append(keep, r)
			}
		}
		e.rows = keep
		e.mutations++
		return nil
	case c12DelInfo, c12DelPos, c12DelPosC:
		table := "pos"
		if q == c12DelInfo {
			table = "info"
		}
		id := args[0].(string)
		var keep []*c12Row
		for _, r := range e.rows {
			hit := r.table == table && r.taskID == id
			if hit && q == c12DelPosC {
				hit = r.collID == args[1].(int64)
			}
			if !hit {
				keep = append(keep, r)
			}
		}
		e.rows = keep
		e.mutations++
		return nil
	}
	e.unknown++
	return errors.New("c12sql: statement not recognised: " + q)
}

func (e *c12SQL) exec(tx *c12SQLTx, q string, args []any) error {
	if c12IsCreateTable(q) {
		return nil
	}
	if e.fail("exec") {
		return errors.New("mysql: exec failed")
	}
	if tx != nil {
		if tx.done {
			return c12ErrTxDone
		}
		tx.ops = append(tx.ops, c12SQLOp{q, append([]any(nil), args...)})
		return nil
	}
	return e.apply(q, args)
}

func (e *c12SQL) commit(tx *c12SQLTx) error {
	if tx.done {
		return c12ErrTxDone
	}
	if e.fail("commit") {
		return errors.New("mysql: commit failed")
	}
	tx.done = true
	for _, op := range tx.ops {
		if err := e.apply(op.q, op.args); err != nil {
			return err
		}
	}
	return nil
}

func (e *c12SQL) rollback(tx *c12SQLTx) error {
	if tx.done {
		return c12ErrTxDone
	}
	tx.done = true
	tx.ops = nil
	return nil
}

// query runs one of the two SELECT shapes and returns the result rows.
func (e *c12SQL) query(q string, args []any) ([][]any, error) {
	if e.fail("query") {
		return nil, errors.New("mysql: query failed")
	}
	if q == c12SelMsgEq {
		var out [][]any
		for _, r := range e.rows {
			if r.table == "msg" && r.key == args[0].(string) {
				out = append(out, []any{r.v1})
			}
		}
		return out, nil
	}
	chars := vChars(q, c12MaxComp)
	table, head := "", ""
	switch {
	case c12HasHead(chars, c12SelMsgLike):
		table, head = "msg", c12SelMsgLike
	case c12HasHead(chars, c12SelInfo):
		table, head = "info", c12SelInfo
	case c12HasHead(chars, c12SelPos):
		table, head = "pos", c12SelPos
	default:
		e.unknown++
		return nil, errors.New("c12sql: statement not recognised: " + q)
	}
	rest := chars[len(head):]
	end := -1
	for i, c := range rest {
		if c == "'" {
			end = i
			break
		}
	}
	if end < 0 {
		e.unknown++
		return nil, errors.New("c12sql: unterminated pattern")
	}
	pat := rest[:end]
	tail := c12Join(rest[end+1:])
	esc := "\\" // MySQL's default escape character
	const escClause = " ESCAPE '"
	if len(tail) >= len(escClause)+2 && tail[:len(escClause)] == escClause && tail[len(escClause)+1:len(escClause)+2] == "'" {
		esc = tail[len(escClause) : len(escClause)+1]
		tail = tail[len(escClause)+2:]
	}
	byTask, byColl := false, false
	switch tail {
	case "":
	case " AND task_id = ?":
		byTask = true
	case " AND collection_id = ?":
		byColl = true
	case " AND task_id = ? AND collection_id = ?":
		byTask, byColl = true, true
	default:
		e.unknown++
		return nil, errors.New("c12sql: statement not recognised: " + q)
	}
	kinds, lits := c12LikeElems(pat, esc)
	var out [][]any
	for _, r := range e.rows {
		if r.table != table {
			continue
		}
		ai := 0
		if byTask {
			if r.taskID != args[ai].(string) {
				continue
			}
			ai++
		}
		if byColl {
			if r.collID != args[ai].(int64) {
				continue
			}
		}
		if !vLikeElems(kinds, lits, r.key) {
			continue
		}
		if table == "info" || table == "msg" {
			out = append(out, []any{r.v1})
		} else {
			out = append(out, []any{r.taskID, r.collID, r.collName, r.v1, r.v2, r.v3})
		}
	}
	return out, nil
}

// ---- symbolic side: the database/sql API as seen by the stores ----

type c12StmtState struct {
	tx *c12SQLTx // nil: prepared on the database handle (auto-commit)
	q  string
}

type c12RowSet struct {
	rows [][]any
	i    int
}

var (
	c12Txs     map[*sql.Tx]*c12SQLTx
	c12Stmts   map[*sql.Stmt]*c12StmtState
	c12RowSets map[*sql.Rows]*c12RowSet
)

type c12Result struct{}

func (c12Result) LastInsertId() (int64, error) { return 0, nil }
func (c12Result) RowsAffected() (int64, error) { return 1, nil }

func c12sqlDBExec(db *sql.DB, ctx context.Context, query string, args ...any) (sql.Result, error) {
	if err := c12E.exec(nil, query, args); err != nil {
		return nil, err
	}
	return c12Result{}, nil
}

func c12sqlNewRows(rs [][]any) *sql.Rows {
	h := new(sql.Rows)
	c12RowSets[h] = &c12RowSet{rows: rs, i: -1}
	return h
}

func c12sqlDBQuery(db *sql.DB, ctx context.Context, query string, args ...any) (*sql.Rows, error) {
	rs, err := c12E.query(query, args)
	if err != nil {
		return nil, err
	}
	return c12sqlNewRows(rs), nil
}

func c12sqlDBPrepare(db *sql.DB, ctx context.Context, query string) (*sql.Stmt, error) {
	if c12E.fail("prepare") {
		return nil, errors.New("mysql: prepare failed")
	}
	h := new(sql.Stmt)
	c12Stmts[h] = &c12StmtState{q: query}
	return h, nil
}

func c12sqlDBBegin(db *sql.DB, ctx context.Context, opts *sql.TxOptions) (*sql.Tx, error) {
	if c12E.fail("begin") {
		return nil, errors.New("mysql: begin failed")
	}
	h := new(sql.Tx)
	c12Txs[h] = &c12SQLTx{}
	return h, nil
}

func c12sqlTxPrepare(tx *sql.Tx, ctx context.Context, query string) (*sql.Stmt, error) {
	if c12E.fail("prepare") {
		return nil, errors.New("mysql: prepare failed")
	}
	h := new(sql.Stmt)
	c12Stmts[h] = &c12StmtState{tx: c12Txs[tx], q: query}
	return h, nil
}

// database/sql finishes a Tx when Commit is called, whatever the driver answers: a Rollback
// after a failed Commit returns ErrTxDone
func c12sqlTxCommit(tx *sql.Tx) error {
	t := c12Txs[tx]
	if t.done {
		return c12ErrTxDone
	}
	err := c12E.commit(t)
	t.done = true
	return err
}
func c12sqlTxRollback(tx *sql.Tx) error { return c12E.rollback(c12Txs[tx]) }

func c12sqlStmtExec(s *sql.Stmt, ctx context.Context, args ...any) (sql.Result, error) {
	st := c12Stmts[s]
	if err := c12E.exec(st.tx, st.q, args); err != nil {
		return nil, err
	}
	return c12Result{}, nil
}

func c12sqlStmtQuery(s *sql.Stmt, ctx context.Context, args ...any) (*sql.Rows, error) {
	st := c12Stmts[s]
	rs, err := c12E.query(st.q, args)
	if err != nil {
		return nil, err
	}
	return c12sqlNewRows(rs), nil
}

func c12sqlStmtClose(s *sql.Stmt) error { return nil }

func c12sqlRowsNext(r *sql.Rows) bool {
	rs := c12RowSets[r]
	rs.i++
	return rs.i < len(rs.rows)
}

func c12sqlRowsScan(r *sql.Rows, dest ...any) error {
	rs := c12RowSets[r]
	row := rs.rows[rs.i]
	if len(dest) != len(row) {
		return errors.New("sql: wrong number of destination arguments in Scan")
	}
	for i, d := range dest {
		switch p := d.(type) {
		case *string:
			*p = row[i].(string)
		case *int64:
			*p = row[i].(int64)
		default:
			return errors.New("c12sql: unsupported Scan destination")
		}
	}
	return nil
}

func c12sqlRowsClose(r *sql.Rows) error { return nil }

// ---- native side: the same engine behind a real database/sql driver ----

type c12Connector struct{ e *c12SQL }

func (c c12Connector) Connect(ctx context.Context) (driver.Conn, error) { return &c12Conn{e: c.e}, nil }
func (c c12Connector) Driver() driver.Driver                            { return c12Driver{} }

type c12Driver struct{}

func (c12Driver) Open(name string) (driver.Conn, error) { return nil, errors.New("use the connector") }

type c12Conn struct {
	e  *c12SQL
	tx *c12SQLTx
}

func (c *c12Conn) Prepare(query string) (driver.Stmt, error) {
	if !c12IsCreateTable(query) && c.e.fail("prepare") {
		return nil, errors.New("mysql: prepare failed")
	}
	return &c12DrvStmt{c: c, q: query}, nil
}
func (c *c12Conn) Close() error { return nil }
func (c *c12Conn) Begin() (driver.Tx, error) {
	if c.e.fail("begin") {
		return nil, errors.New("mysql: begin failed")
	}
	c.tx = &c12SQLTx{}
	return &c12DrvTx{c}, nil
}

type c12DrvTx struct{ c *c12Conn }

func (t *c12DrvTx) Commit() error {
	tx := t.c.tx
	err := t.c.e.commit(tx)
	if err == nil {
		t.c.tx = nil
	}
	return err
}
func (t *c12DrvTx) Rollback() error {
	tx := t.c.tx
	t.c.tx = nil
	if tx == nil || tx.done {
		return nil
	}
	return t.c.e.rollback(tx)
}

type c12DrvStmt struct {
	c *c12Conn
	q string
}

func (s *c12DrvStmt) Close() error  { return nil }
func (s *c12DrvStmt) NumInput() int { return -1 }
func c12Args(args []driver.Value) []any {
	out := make([]any, len(args))
	for i, a := range args {
		out[i] = a
	}
	return out
}
func (s *c12DrvStmt) Exec(args []driver.Value) (driver.Result, error) {
	if err := s.c.e.exec(s.c.tx, s.q, c12Args(args)); err != nil {
		return nil, err
	}
	return driver.RowsAffected(1), nil
}
func (s *c12DrvStmt) Query(args []driver.Value) (driver.Rows, error) {
	rs, err := s.c.e.query(s.q, c12Args(args))
	if err != nil {
		return nil, err
	}
	return &c12DrvRows{rows: rs}, nil
}

type c12DrvRows struct {
	rows [][]any
	i    int
}

func (r *c12DrvRows) Columns() []string {
	if len(r.rows) == 0 {
		return []string{"c0"}
	}
	out := make([]string, len(r.rows[0]))
	for i := range out {
		out[i] = "c" + string(rune('0'+i))
	}
	return out
}
func (r *c12DrvRows) Close() error { return nil }
func (r *c12DrvRows) Next(dest []driver.Value) error {
	if r.i >= len(r.rows) {
		return io.EOF
	}
	for i, v := range r.rows[r.i] {
		dest[i] = v
	}
	r.i++
	return nil
}

// ---- the real MySQL stores of one tenant on the modelled server ----

func c12MySQLStores(e *c12SQL, root string) *MySQLMetaStore {
	var db *sql.DB
	if vSymbolic() {
		db = new(sql.DB)
	} else {
		db = sql.OpenDB(c12Connector{e})
	}
	ctx := context.Background()
	txnMap := make(map[any]func() *sql.Tx)
	s := &MySQLMetaStore{log: zap.NewNop(), db: db, txnMap: txnMap}
	var err error
	s.taskInfoStore, err = NewTaskInfoMysqlStore(ctx, db, root, txnMap)
	vAssert(err == nil, "C12.mysql-store-created")
	s.taskCollectionPositionStore, err = NewTaskCollectionPositionMysqlStore(ctx, db, root, txnMap)
	vAssert(err == nil, "C12.mysql-store-created")
	return s
}

func c12MySeed(e *c12SQL, r *c12Rec) {
	ctx := context.Background()
	st := c12MySQLStores(e, r.root)
	err := st.taskInfoStore.Put(ctx, &meta.TaskInfo{TaskID: r.task, Reason: r.mark, State: meta.TaskStateRunning}, nil)
	vAssert(err == nil, "C12.seed-info")
	err = st.taskCollectionPositionStore.Put(ctx, &meta.TaskCollectionPosition{TaskID: r.task, CollectionID: r.coll, CollectionName: r.mark,
		Positions: map[string]*meta.PositionInfo{"ch": {Time: 7}}}, nil)
	vAssert(err == nil, "C12.seed-position")
}

func (e *c12SQL) find(table, key string) *c12Row {
	for _, r := range e.rows {
		if r.table == table && r.key == key {
			return r
		}
	}
	return nil
}

// VerifC12_MySQLIsolation: the obligations of VerifC12_EtcdIsolation on the MySQL stores.
// Task ids are unique across tenants (server generated uuids) unless SAMEIDS=1.
func VerifC12_MySQLIsolation() {
	L := vParam("L", 2)
	// collection ids are concrete here (the id column is a BIGINT compared exactly; ids that are
	// decimal prefixes of one another matter for the key strings only and are among the choices)
	r1 := &c12Rec{mark: "rec1", coll: 5}
	r2 := &c12Rec{mark: "rec2", coll: []int64{5, 6, 51}[vChoice("coll2", 3)]}
	r1.root, r1.task = c12Root("root1", L), c12Task("task1", vParam("LT", 1))
	r2.root, r2.task = c12Root("root2", L), c12Task("task2", vParam("LT", 1))
	sameTenant := r1.root == r2.root
	sameTask := vAnd(sameTenant, r1.task == r2.task)
	sameColl := vAnd(sameTask, r1.coll == r2.coll)
	vAssume(!sameColl)
	e := c12NewSQL()
	c12MySeed(e, r1)
	c12MySeed(e, r2)
	info2, pos2 := e.find("info", c12InfoKey(r2)), e.find("pos", c12PosKey(r2))
	vAssert(info2 != nil && pos2 != nil, "C12.seeded-records-are-stored")
	if info2 == nil || pos2 == nil {
		return
	}
	info2Val, pos2Val := info2.v1, pos2.v1
	// known finding C12-mysql-like-wildcards: '_' and '%' of a tenant's root path act as
	// wildcards in the LIKE patterns built from it
	wild := vOr(c12Contains(r1.root, "_"), c12Contains(r1.root, "%"))
	// known finding C12-mysql-delete-ignores-root: DELETE statements select by task_id only
	sameID := vAnd(!sameTenant, r1.task == r2.task)
	st := c12MySQLStores(e, r1.root)
	ctx := context.Background()
	infoTouched, posTouched := false, false
	switch vChoice("op", 9) {
	case 0:
		got, err := st.taskInfoStore.Get(ctx, &meta.TaskInfo{TaskID: r1.task}, nil)
		vAssert(err == nil, "C12.get-ok")
		seen1 := false
		for _, g := range got {
			vKnown("C12-mysql-like-wildcards", wild)
			vAssert(vOr(g.Reason == "rec1", sameTask), "C12.get-task-returns-only-that-task")
			vAssert(g.TaskID == r1.task, "C12.get-task-returns-only-that-task-id")
			seen1 = seen1 || g.Reason == "rec1" || g.Reason == "rec2"
		}
		vAssert(seen1, "C12.get-task-finds-it")
	case 1:
		got, err := st.taskInfoStore.Get(ctx, &meta.TaskInfo{}, nil)
		vAssert(err == nil, "C12.list-ok")
		n1 := 0
		for _, g := range got {
			vKnown("C12-mysql-like-wildcards", wild)
			vAssert(vOr(g.Reason == "rec1", sameTenant), "C12.list-returns-only-this-tenant")
			if g.Reason == "rec1" {
				n1++
			}
		}
		vAssert(vOr(n1 == 1, sameTask), "C12.list-finds-the-tenant's-own-task")
	case 2:
		vAssert(st.taskInfoStore.Delete(ctx, &meta.TaskInfo{TaskID: r1.task}, nil) == nil, "C12.delete-ok")
		infoTouched = sameTask
		vAssert(e.find("info", c12InfoKey(r1)) == nil, "C12.delete-removes-the-record")
	case 3:
		got, err := st.taskCollectionPositionStore.Get(ctx, &meta.TaskCollectionPosition{TaskID: r1.task, CollectionID: r1.coll}, nil)
		vAssert(err == nil, "C12.get-position-ok")
		for _, g := range got {
			vKnown("C12-mysql-like-wildcards", wild)
			vAssert(g.CollectionName == "rec1", "C12.get-position-returns-only-that-collection")
		}
		vAssert(len(got) >= 1, "C12.get-position-finds-it")
	case 4:
		got, err := st.taskCollectionPositionStore.Get(ctx, &meta.TaskCollectionPosition{TaskID: r1.task}, nil)
		vAssert(err == nil, "C12.get-task-positions-ok")
		for _, g := range got {
			vKnown("C12-mysql-like-wildcards", wild)
			vAssert(vOr(g.CollectionName == "rec1", sameTask), "C12.get-task-positions-returns-only-that-task")
		}
	case 5:
		got, err := st.taskCollectionPositionStore.Get(ctx, &meta.TaskCollectionPosition{}, nil)
		vAssert(err == nil, "C12.list-positions-ok")
		for _, g := range got {
			vKnown("C12-mysql-like-wildcards", wild)
			vAssert(vOr(g.CollectionName == "rec1", sameTenant), "C12.list-positions-returns-only-this-tenant")
		}
	case 6:
		vAssert(st.taskCollectionPositionStore.Delete(ctx, &meta.TaskCollectionPosition{TaskID: r1.task, CollectionID: r1.coll}, nil) == nil, "C12.delete-position-ok")
	case 7:
		vAssert(st.taskCollectionPositionStore.Delete(ctx, &meta.TaskCollectionPosition{TaskID: r1.task}, nil) == nil, "C12.delete-task-positions-ok")
		posTouched = sameTask
	case 8:
		_, err := DeleteTask(st, r1.task)
		vAssert(err == nil, "C12.delete-task-ok")
		infoTouched, posTouched = sameTask, sameTask
		vAssert(e.find("info", c12InfoKey(r1)) == nil && e.find("pos", c12PosKey(r1)) == nil, "C12.delete-task-removes-record-and-checkpoints")
	}
	i2, p2 := e.find("info", c12InfoKey(r2)), e.find("pos", c12PosKey(r2))
	vKnown("C12-mysql-delete-ignores-root", sameID)
	vAssert(vOr(infoTouched, i2 != nil && i2.v1 == info2Val), "C12.foreign-task-record-untouched")
	vKnown("C12-mysql-delete-ignores-root", sameID)
	vAssert(vOr(posTouched, p2 != nil && p2.v1 == pos2Val), "C12.foreign-checkpoint-untouched")
	vAssert(e.unknown == 0, "C12.every-statement-is-one-of-the-modelled-shapes")
	vReach("end")
}

func c12Contains(s, sub string) bool {
	for _, c := range vChars(s, c12MaxComp) {
		if c == sub {
			return true
		}
	}
	return false
}

// VerifC12_MySQLDeleteTaskAtomic: DeleteTask on the MySQL stores with a fault at any engine
// call (query, begin, prepare, exec, commit) is all or nothing for the task's record and
// checkpoints, and never touches another task.
func VerifC12_MySQLDeleteTaskAtomic() {
	e := c12NewSQL()
	root, task := "r", "t1"
	r := &c12Rec{mark: "rec1", root: root, task: task, coll: 5}
	c12MySeed(e, r)
	r.coll = 6
	c12MySeed(e, r)
	other := &c12Rec{mark: "rec2", root: root, task: "t2", coll: 5}
	c12MySeed(e, other)
	st := c12MySQLStores(e, root)
	before := len(e.rows)
	e.faults, e.nFault, e.maxF = true, 0, vParam("F", 1)
	info, err := DeleteTask(st, task)
	e.faults = false
	own := 0
	for _, x := range e.rows {
		if x.taskID == task {
			own++
		}
	}
	if err == nil {
		vAssert(info != nil && info.TaskID == task, "C12.delete-task-returns-the-record")
		vAssert(own == 0, "C12.delete-task-removes-record-and-checkpoints")
		vAssert(len(e.rows) == before-3, "C12.delete-task-removes-nothing-else")
	} else {
		vAssert(e.nFault > 0, "C12.delete-task-fails-only-on-a-fault")
		vAssert(own == 3 && len(e.rows) == before, "C12.failed-delete-task-changes-nothing")
	}
	vAssert(e.find("info", c12InfoKey(other)) != nil && e.find("pos", c12PosKey(other)) != nil, "C12.foreign-task-record-untouched")
	vAssert(e.unknown == 0, "C12.every-statement-is-one-of-the-modelled-shapes")
	vReach("end")
}

// VerifC12_MySQLChannelUpdate: the channel-level obligations of VerifC12_ChannelUpdate
// (only the addressed channel changes, dropped entries are never overwritten, the drop-state
// update freezes every entry) on the MySQL checkpoint store.
func VerifC12_MySQLChannelUpdate() {
	e := c12NewSQL()
	st := c12MySQLStores(e, c12Root("root", vParam("L", 1)))
	c12ChannelUpdateOn(st.taskCollectionPositionStore, "t1", 5)
	vAssert(e.unknown == 0, "C12.every-statement-is-one-of-the-modelled-shapes")
}

// ---- the replicate-message store (task_msg) on MySQL ----

func c12MsgStore(e *c12SQL, root string) *MySQLReplicateStore {
	var db *sql.DB
	if vSymbolic() {
		db = new(sql.DB)
	} else {
		db = sql.OpenDB(c12Connector{e})
	}
	return &MySQLReplicateStore{log: zap.NewNop(), db: db, rootPath: root}
}

func c12MetaMsg(mark string) coreapi.MetaMsg {
	return coreapi.MetaMsg{Base: coreapi.BaseTaskMsg{TaskID: "t", MsgID: mark}, Type: coreapi.DropCollectionMetaMsgType, Data: map[string]interface{}{}}
}

// VerifC12_MySQLReplicateStoreIsolation: the pending-drop records (task_msg) of two tenants with
// arbitrary distinct root paths, written through the real MySQLReplicateStore. Whatever tenant 1
// reads (its start-up reload: everything under its root; one record), writes or removes, tenant
// 2's record is neither returned nor changed.
func VerifC12_MySQLReplicateStoreIsolation() {
	L := vParam("L", 2)
	root1, root2 := c12Root("root1", L), c12Root("root2", L)
	vAssume(root1 != root2)
	vAssume(vAnd(!c12Contains(root1, "'"), !c12Contains(root2, "'")))
	e := c12NewSQL()
	s1, s2 := c12MsgStore(e, root1), c12MsgStore(e, root2)
	ctx := context.Background()
	key := "task_msg/t/m"
	vAssert(s1.Put(ctx, key, c12MetaMsg("rec1")) == nil && s2.Put(ctx, key, c12MetaMsg("rec2")) == nil, "C12.seed-msg")
	switch vChoice("op", 4) {
	case 0: // what ReplicateMeteImpl.Reload reads at start-up
		got, err := s1.Get(ctx, "", true)
		vAssert(err == nil, "C12.reload-msgs-ok")
		n1 := 0
		for _, g := range got {
			vAssert(g.Base.MsgID == "rec1", "C12.reload-returns-only-this-tenant's-pending-drops")
			if g.Base.MsgID == "rec1" {
				n1++
			}
		}
		vAssert(n1 == 1, "C12.reload-finds-the-tenant's-own-pending-drop")
	case 1:
		got, err := s1.Get(ctx, key, false)
		vAssert(err == nil && len(got) == 1 && got[0].Base.MsgID == "rec1", "C12.get-msg-returns-only-that-record")
	case 2:
		vAssert(s1.Put(ctx, key, c12MetaMsg("rec1b")) == nil, "C12.put-msg-ok")
	case 3:
		vAssert(s1.Remove(ctx, key) == nil, "C12.remove-msg-ok")
		got, err := s1.Get(ctx, key, false)
		vAssert(err == nil && len(got) == 0, "C12.remove-msg-removes-it")
	}
	got2, err := s2.Get(ctx, key, false)
	vAssert(err == nil && len(got2) == 1 && got2[0].Base.MsgID == "rec2", "C12.foreign-pending-drop-untouched")
	vAssert(e.unknown == 0, "C12.every-statement-is-one-of-the-modelled-shapes")
	vReach("end")
}
