//go:build verif

package store

// C12 harness: metadata records are isolated per tenant (root path), task,
// collection and channel. Real code: server/store/meta_key.go (all),
// TaskInfoEtcdStore / TaskCollectionPositionEtcdStore (all), EtcdMetaStore.Txn,
// store.{UpdateTaskCollectionPosition, UpdateDropStateTaskCollectionPosition,
// DeleteTask}. Backend contract (assumption, not code): etcd is a string-keyed
// map; WithPrefix selects the keys having the prefix; the ops of a
// Txn().Then(ops).Commit() are applied atomically.

import (
	"context"
	"errors"
	"strings"

	"github.com/milvus-io/milvus-proto/go-api/v2/commonpb"
	clientv3 "go.etcd.io/etcd/client/v3"
	"go.uber.org/zap"

	serverapi "github.com/zilliztech/milvus-cdc/server/api"
	"github.com/zilliztech/milvus-cdc/server/model/meta"
)

// ---- the modelled backend ----

type c12Op struct {
	kind   string // "put" | "get" | "delete"
	key    string
	val    string
	prefix bool
}

var (
	c12Prefix bool
	c12OpLog  []c12Op
)

func c12WithPrefix() clientv3.OpOption { return func(op *clientv3.Op) { c12Prefix = true } }

func c12HasPrefixOpt(opts []clientv3.OpOption) bool {
	if !vSymbolic() {
		// native replay: the real option constructors are in use
		return len(clientv3.OpGet("k", opts...).RangeBytes()) > 0
	}
	c12Prefix = false
	var op clientv3.Op
	for _, o := range opts {
		o(&op)
	}
	return c12Prefix
}

func c12OpPut(key, val string, opts ...clientv3.OpOption) clientv3.Op {
	c12OpLog = append(c12OpLog, c12Op{kind: "put", key: key, val: val})
	return clientv3.Op{}
}
func c12OpGet(key string, opts ...clientv3.OpOption) clientv3.Op {
	c12OpLog = append(c12OpLog, c12Op{kind: "get", key: key, prefix: c12HasPrefixOpt(opts)})
	return clientv3.Op{}
}
func c12OpDelete(key string, opts ...clientv3.OpOption) clientv3.Op {
	c12OpLog = append(c12OpLog, c12Op{kind: "delete", key: key, prefix: c12HasPrefixOpt(opts)})
	return clientv3.Op{}
}

type c12KV struct {
	clientv3.KV
	keys      []string // insertion order; values in data
	data      map[string]string
	failWrite bool // plain Put/Delete fails
	failRead  bool
	failTxn   bool // Commit fails (nothing applied)
	mutations int  // number of applied write operations (for atomicity accounting)
}

func c12NewKV() *c12KV { return &c12KV{data: map[string]string{}} }

func (k *c12KV) matches(stored, key string, prefix bool) bool {
	if prefix {
		return strings.HasPrefix(stored, key)
	}
	return stored == key
}

func (k *c12KV) put(key, val string) {
	if _, ok := k.data[key]; !ok {
		k.keys = append(k.keys, key)
	}
	k.data[key] = val
	k.mutations++
}

func (k *c12KV) del(key string, prefix bool) {
	var keep []string
	for _, s := range k.keys {
		if k.matches(s, key, prefix) {
			delete(k.data, s)
		} else {
			keep = append(keep, s)
		}
	}
	k.keys = keep
	k.mutations++
}

func (k *c12KV) Put(ctx context.Context, key, val string, opts ...clientv3.OpOption) (*clientv3.PutResponse, error) {
	if k.failWrite {
		return nil, errors.New("etcd: put failed")
	}
	k.put(key, val)
	return &clientv3.PutResponse{}, nil
}

func c12NewOf[T any](_ []*T) *T { return new(T) }

func (k *c12KV) Get(ctx context.Context, key string, opts ...clientv3.OpOption) (*clientv3.GetResponse, error) {
	if k.failRead {
		return nil, errors.New("etcd: get failed")
	}
	prefix := c12HasPrefixOpt(opts)
	resp := &clientv3.GetResponse{}
	for _, s := range k.keys {
		if k.matches(s, key, prefix) {
			kv := c12NewOf(resp.Kvs)
			kv.Value = []byte(k.data[s])
			resp.Kvs = append(resp.Kvs, kv)
		}
	}
	return resp, nil
}

func (k *c12KV) Delete(ctx context.Context, key string, opts ...clientv3.OpOption) (*clientv3.DeleteResponse, error) {
	if k.failWrite {
		return nil, errors.New("etcd: delete failed")
	}
	k.del(key, c12HasPrefixOpt(opts))
	return &clientv3.DeleteResponse{}, nil
}

type c12Txn struct {
	clientv3.Txn
	kv *c12KV
	n  int
}

func (k *c12KV) Txn(ctx context.Context) clientv3.Txn { return &c12Txn{kv: k} }

func (t *c12Txn) Then(ops ...clientv3.Op) clientv3.Txn {
	t.n = len(ops)
	if !vSymbolic() {
		// native replay: read the real ops
		for _, op := range ops {
			o := c12Op{key: string(op.KeyBytes()), val: string(op.ValueBytes()), prefix: len(op.RangeBytes()) > 0}
			switch {
			case op.IsPut():
				o.kind = "put"
			case op.IsDelete():
				o.kind = "delete"
			default:
				o.kind = "get"
			}
			c12OpLog = append(c12OpLog, o)
		}
	}
	return t
}

func (t *c12Txn) Commit() (*clientv3.TxnResponse, error) {
	if t.kv.failTxn {
		return nil, errors.New("etcd: txn failed")
	}
	for _, op := range c12OpLog[len(c12OpLog)-t.n:] {
		switch op.kind {
		case "put":
			t.kv.put(op.key, op.val)
		case "delete":
			t.kv.del(op.key, op.prefix)
		}
	}
	return &clientv3.TxnResponse{Succeeded: true}, nil
}

// c12Stores builds the REAL etcd stores of one tenant (root path) on the backend.
func c12Stores(kv *c12KV, root string) *EtcdMetaStore {
	cli := &clientv3.Client{KV: kv}
	txnMap := make(map[any][]clientv3.Op)
	return &EtcdMetaStore{
		log:                         zap.NewNop(),
		etcdClient:                  cli,
		taskInfoStore:               &TaskInfoEtcdStore{log: zap.NewNop(), rootPath: root, etcdClient: cli, txnMap: txnMap},
		taskCollectionPositionStore: &TaskCollectionPositionEtcdStore{log: zap.NewNop(), rootPath: root, etcdClient: cli, txnMap: txnMap},
		txnMap:                      txnMap,
	}
}

// ---- records ----

type c12Rec struct {
	mark string // origin marker carried in the stored value
	root string
	task string
	coll int64
}

func c12Root(tag string, L int) string {
	s := vStr(tag, L)
	vAssume(s != "")
	return s
}

func c12Task(tag string, L int) string {
	s := vStr(tag, L)
	vAssume(vAnd(s != "", !strings.Contains(s, "/"))) // task ids are server generated (uuid)
	return s
}

func c12Seed(kv *c12KV, r *c12Rec) {
	ctx := context.Background()
	st := c12Stores(kv, r.root)
	err := st.taskInfoStore.Put(ctx, &meta.TaskInfo{TaskID: r.task, Reason: r.mark, State: meta.TaskStateRunning}, nil)
	vAssert(err == nil, "C12.seed-info")
	err = st.taskCollectionPositionStore.Put(ctx, &meta.TaskCollectionPosition{TaskID: r.task, CollectionID: r.coll, CollectionName: r.mark,
		Positions: map[string]*meta.PositionInfo{"ch": {Time: 7}}}, nil)
	vAssert(err == nil, "C12.seed-position")
}

// the exact keys of a record (built by the real key functions)
func c12InfoKey(r *c12Rec) string { return getTaskInfoKey(r.root, r.task) }
func c12PosKey(r *c12Rec) string  { return getTaskCollectionPositionKey(r.root, r.task, r.coll) }

// VerifC12_EtcdIsolation: record 2 differs from record 1 in root, task or
// collection; an operation addressed to record 1 through tenant 1's stores never
// returns, changes or deletes record 2 unless record 2 is legitimately inside the
// addressed scope (same tenant and - for task/collection scoped calls - same ids).
func VerifC12_EtcdIsolation() { c12Isolation(false) }

// VerifC12_CollectionIDs: the same obligations for two checkpoints of ONE task of one
// tenant that differ only in the collection id, with the decimal rendering of the ids
// modelled exactly (digits), so that ids which are decimal prefixes of one another are
// covered (the main entry treats integer formatting as an opaque injective function).
func VerifC12_CollectionIDs() { c12Isolation(true) }

func c12Isolation(fixedNames bool) {
	L := vParam("L", 3)
	r1 := &c12Rec{mark: "rec1", coll: vI64("coll1")}
	r2 := &c12Rec{mark: "rec2", coll: vI64("coll2")}
	if fixedNames {
		r1.root, r1.task, r2.root, r2.task = "r", "t", "r", "t"
	} else {
		r1.root, r1.task = c12Root("root1", L), c12Task("task1", L)
		r2.root, r2.task = c12Root("root2", L), c12Task("task2", L)
	}
	vAssume(vAnd(r1.coll > 0, r2.coll > 0))
	sameTenant := r1.root == r2.root
	sameTask := vAnd(sameTenant, r1.task == r2.task)
	sameColl := vAnd(sameTask, r1.coll == r2.coll)
	vAssume(!sameColl)
	kv := c12NewKV()
	c12Seed(kv, r1)
	c12Seed(kv, r2)
	info2Key, pos2Key := c12InfoKey(r2), c12PosKey(r2)
	info2Val, pos2Val := kv.data[info2Key], kv.data[pos2Key]
	// Known finding C12-nested-root: a tenant whose root path lies below another tenant's
	// reserved sub-tree (root2 = root1/task_info[/...] or root1/task_position[/...])
	// (either tenant's root may be the inner one: the inner tenant's scans also see records of the
	// outer tenant whose task id is one of the reserved words)
	nested := vOr(vOr(strings.HasPrefix(r2.root+"/", r1.root+"/"+taskInfoPrefix+"/"), strings.HasPrefix(r2.root+"/", r1.root+"/"+taskPositionPrefix+"/")),
		vOr(strings.HasPrefix(r1.root+"/", r2.root+"/"+taskInfoPrefix+"/"), strings.HasPrefix(r1.root+"/", r2.root+"/"+taskPositionPrefix+"/")))
	st := c12Stores(kv, r1.root)
	ctx := context.Background()
	infoTouched, posTouched := false, false // may record 2 legitimately be affected?
	switch vChoice("op", 9) {
	case 0: // get one task
		got, err := st.taskInfoStore.Get(ctx, &meta.TaskInfo{TaskID: r1.task}, nil)
		vAssert(err == nil, "C12.get-ok")
		seen1 := false
		for _, g := range got {
			vKnown("C12-nested-root", nested)
			vAssert(vOr(g.Reason == "rec1", sameTask), "C12.get-task-returns-only-that-task")
			vAssert(g.TaskID == r1.task, "C12.get-task-returns-only-that-task-id")
			seen1 = seen1 || g.Reason == "rec1" || g.Reason == "rec2"
		}
		vAssert(seen1, "C12.get-task-finds-it")
	case 1: // list the tenant's tasks
		got, err := st.taskInfoStore.Get(ctx, &meta.TaskInfo{}, nil)
		vAssert(err == nil, "C12.list-ok")
		for _, g := range got {
			vKnown("C12-nested-root", nested)
			vAssert(vOr(g.Reason == "rec1", sameTenant), "C12.list-returns-only-this-tenant")
		}
	case 2: // delete one task record
		vAssert(st.taskInfoStore.Delete(ctx, &meta.TaskInfo{TaskID: r1.task}, nil) == nil, "C12.delete-ok")
		infoTouched = sameTask
	case 3: // get one checkpoint
		got, err := st.taskCollectionPositionStore.Get(ctx, &meta.TaskCollectionPosition{TaskID: r1.task, CollectionID: r1.coll}, nil)
		vAssert(err == nil, "C12.get-position-ok")
		for _, g := range got {
			vKnown("C12-nested-root", nested)
			vAssert(g.CollectionName == "rec1", "C12.get-position-returns-only-that-collection")
		}
		vAssert(len(got) == 1, "C12.get-position-finds-it")
	case 4: // all checkpoints of one task
		got, err := st.taskCollectionPositionStore.Get(ctx, &meta.TaskCollectionPosition{TaskID: r1.task}, nil)
		vAssert(err == nil, "C12.get-task-positions-ok")
		for _, g := range got {
			vKnown("C12-nested-root", nested)
			vAssert(vOr(g.CollectionName == "rec1", sameTask), "C12.get-task-positions-returns-only-that-task")
		}
	case 5: // all checkpoints of the tenant
		got, err := st.taskCollectionPositionStore.Get(ctx, &meta.TaskCollectionPosition{}, nil)
		vAssert(err == nil, "C12.list-positions-ok")
		for _, g := range got {
			vKnown("C12-nested-root", nested)
			vAssert(vOr(g.CollectionName == "rec1", sameTenant), "C12.list-positions-returns-only-this-tenant")
		}
	case 6: // delete one checkpoint
		vAssert(st.taskCollectionPositionStore.Delete(ctx, &meta.TaskCollectionPosition{TaskID: r1.task, CollectionID: r1.coll}, nil) == nil, "C12.delete-position-ok")
	case 7: // delete all checkpoints of one task
		vAssert(st.taskCollectionPositionStore.Delete(ctx, &meta.TaskCollectionPosition{TaskID: r1.task}, nil) == nil, "C12.delete-task-positions-ok")
		posTouched = sameTask
	case 8: // delete the task with all its checkpoints (transaction)
		_, err := DeleteTask(st, r1.task)
		vAssert(err == nil, "C12.delete-task-ok")
		infoTouched, posTouched = sameTask, sameTask
		_, ok1 := kv.data[c12InfoKey(r1)]
		_, ok2 := kv.data[c12PosKey(r1)]
		vAssert(!ok1 && !ok2, "C12.delete-task-removes-record-and-checkpoints")
	}
	// record 2 is untouched unless it is legitimately in scope
	v, ok := kv.data[info2Key]
	vKnown("C12-nested-root", nested)
	vAssert(vOr(infoTouched, vAnd(ok, v == info2Val)), "C12.foreign-task-record-untouched")
	v, ok = kv.data[pos2Key]
	vKnown("C12-nested-root", nested)
	vAssert(vOr(posTouched, vAnd(ok, v == pos2Val)), "C12.foreign-checkpoint-untouched")
	vReach("end")
}

// ---- channel-level read-modify-write ----

func c12Pos(tag string) *meta.PositionInfo {
	return &meta.PositionInfo{Time: vI64(tag + ".time"), Dropped: vBool(tag + ".dropped"), DataPair: &commonpb.KeyDataPair{Key: tag, Data: []byte(tag)}}
}

func c12SamePos(a, b *meta.PositionInfo) bool {
	if a == nil || b == nil {
		return a == b
	}
	return vAnd(vAnd(a.Time == b.Time, a.Dropped == b.Dropped), string(a.DataPair.GetData()) == string(b.DataPair.GetData()))
}

// VerifC12_ChannelUpdate: updating the checkpoint of one channel changes only
// that channel's entries; entries of a dropped collection are never overwritten;
// after the drop-state update every entry is frozen.
func VerifC12_ChannelUpdate() {
	L := vParam("L", 3)
	kv := c12NewKV()
	root, task := c12Root("root", L), c12Task("task", L)
	coll := vI64("coll")
	vAssume(coll > 0)
	st := c12Stores(kv, root)
	c12ChannelUpdateOn(st.taskCollectionPositionStore, task, coll)
}

// c12ChannelUpdateOn: the channel-level obligations on the checkpoint store of either backend.
func c12ChannelUpdateOn(posStore serverapi.MetaStore[*meta.TaskCollectionPosition], task string, coll int64) {
	ctx := context.Background()
	// stored state: two channels with arbitrary times / dropped flags in all three maps
	chA, chB := "ka", "kb" // letters of the check's string alphabet, so that the symbolic channel of the update can hit them
	stored := &meta.TaskCollectionPosition{TaskID: task, CollectionID: coll, CollectionName: "c",
		Positions:       map[string]*meta.PositionInfo{chA: c12Pos("pA"), chB: c12Pos("pB")},
		OpPositions:     map[string]*meta.PositionInfo{chA: c12Pos("oA"), chB: c12Pos("oB")},
		TargetPositions: map[string]*meta.PositionInfo{"ta": c12Pos("tA"), "tb": c12Pos("tB")},
	}
	// a channel that only ever acknowledged tick packs has a position but no op position
	// (and a record written by the create-collection event the other way round)
	switch vChoice("missingEntryOfChannelA", 3) {
	case 1:
		delete(stored.OpPositions, chA)
	case 2:
		delete(stored.Positions, chA)
	}
	if vBool("freezeFirst") {
		vAssert(posStore.Put(ctx, stored, nil) == nil, "C12.seed")
		vAssert(UpdateDropStateTaskCollectionPosition(posStore, task, coll) == nil, "C12.drop-state-ok")
		for _, m := range []map[string]*meta.PositionInfo{stored.Positions, stored.OpPositions, stored.TargetPositions} {
			for _, p := range m {
				p.Dropped = true
			}
		}
	} else {
		vAssert(posStore.Put(ctx, stored, nil) == nil, "C12.seed")
	}
	// the update addresses a symbolic source channel / target channel
	pch := vStr("updatedChannel", 3)
	tch := vStr("updatedTargetChannel", 2)
	np := &meta.PositionInfo{Time: vI64("new.time"), DataPair: &commonpb.KeyDataPair{Key: pch, Data: []byte("new")}}
	var nop *meta.PositionInfo
	if vBool("withOpPosition") {
		nop = np
	}
	nt := &meta.PositionInfo{Time: np.Time, DataPair: &commonpb.KeyDataPair{Key: tch, Data: []byte("newT")}}
	err := UpdateTaskCollectionPosition(posStore, task, coll, "c", pch, np, nop, nt)
	vAssert(err == nil, "C12.update-ok")
	got, err := posStore.Get(ctx, &meta.TaskCollectionPosition{TaskID: task, CollectionID: coll}, nil)
	vAssert(err == nil && len(got) == 1, "C12.reread")
	g := got[0]
	check := func(after, before map[string]*meta.PositionInfo, addressed string, newVal *meta.PositionInfo, id string) {
		for k, b := range before {
			a := after[k]
			vAssert(a != nil, "C12.entry-kept:"+id)
			if a == nil {
				continue
			}
			if b.Dropped {
				vAssert(c12SamePos(a, b), "C12.dropped-entry-never-overwritten:"+id)
			} else if newVal == nil {
				vAssert(c12SamePos(a, b), "C12.entry-unchanged-without-new-value:"+id)
			} else {
				vAssert(vOr(c12SamePos(a, b), vAnd(k == addressed, c12SamePos(a, newVal))), "C12.only-addressed-channel-changes:"+id)
				vAssert(vImplies(k == addressed, c12SamePos(a, newVal)), "C12.addressed-channel-gets-new-checkpoint:"+id)
			}
		}
		for k := range after {
			_, was := before[k]
			vAssert(vOr(was, vAnd(newVal != nil, k == addressed)), "C12.no-foreign-entry-appears:"+id)
		}
	}
	check(g.Positions, stored.Positions, pch, np, "positions")
	check(g.OpPositions, stored.OpPositions, pch, nop, "op-positions")
	check(g.TargetPositions, stored.TargetPositions, tch, nt, "target-positions")
	vReach("end")
}

// VerifC12_DeleteTaskAtomic: DeleteTask with a fault at any store step is all or
// nothing, and the deletes reach the backend only inside one commit.
func VerifC12_DeleteTaskAtomic() {
	L := vParam("L", 3)
	kv := c12NewKV()
	root, task := c12Root("root", L), c12Task("task", L)
	r := &c12Rec{mark: "rec1", root: root, task: task, coll: 5}
	c12Seed(kv, r)
	r.coll = 6
	c12Seed(kv, r)
	other := &c12Rec{mark: "rec2", root: root, task: c12Task("otherTask", L), coll: 5}
	vAssume(other.task != task)
	c12Seed(kv, other)
	before := len(kv.keys)
	st := c12Stores(kv, root)
	kv.failRead, kv.failTxn, kv.failWrite = vBool("fault.read"), vBool("fault.commit"), vBool("fault.plainWrite")
	m0 := kv.mutations
	info, err := DeleteTask(st, task)
	kv.failRead = false
	_, hasInfo := kv.data[getTaskInfoKey(root, task)]
	_, hasP5 := kv.data[getTaskCollectionPositionKey(root, task, 5)]
	_, hasP6 := kv.data[getTaskCollectionPositionKey(root, task, 6)]
	if err == nil {
		vAssert(info != nil && info.TaskID == task, "C12.delete-returns-the-task")
		vAssert(!hasInfo && !hasP5 && !hasP6, "C12.delete-removes-record-and-all-checkpoints")
		vAssert(len(kv.keys) == before-3, "C12.delete-removes-nothing-else")
	} else {
		vAssert(hasInfo && hasP5 && hasP6 && len(kv.keys) == before, "C12.failed-delete-changes-nothing")
		vAssert(kv.mutations == m0, "C12.no-write-outside-the-transaction")
	}
	_, o1 := kv.data[getTaskInfoKey(root, other.task)]
	_, o2 := kv.data[getTaskCollectionPositionKey(root, other.task, 5)]
	vAssert(o1 && o2, "C12.other-task-untouched")
	vAssert(len(st.txnMap) == 0, "C12.transaction-buffer-released")
	vReach("end")
}
