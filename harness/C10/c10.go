//go:build verif

package server

// C10 harness: a source collection is replicated by at most one task per target.
// Real code: Create (bookkeeping + revert closures), validCreateRequest,
// checkCollectionInfos, checkDuplicateCollection, matchCollectionName,
// GetCollectionNamesFrom{Req,TaskInfo}, GetCollectionMappingFromReq, delete,
// ReloadTask (rebuild), GetShouldReadFunc, GetCollectionInfos,
// GetMatchCollectionInfo, MatchCollection, IsValidCollectionInfo.
// startInternal is replaced by a stub (start fails on a free boolean).

import (
	"errors"

	coremodel "github.com/zilliztech/milvus-cdc/core/model"
	"github.com/zilliztech/milvus-cdc/core/pb"
	cdcreader "github.com/zilliztech/milvus-cdc/core/reader"
	"github.com/zilliztech/milvus-cdc/core/util"
	"github.com/zilliztech/milvus-cdc/server/model"
	"github.com/zilliztech/milvus-cdc/server/model/meta"
	"github.com/zilliztech/milvus-cdc/server/model/request"

	"github.com/milvus-io/milvus-proto/go-api/v2/schemapb"
)

var c10StartFails bool

func c10StartInternal(e *MetaCDC, info *meta.TaskInfo, ignoreUpdateState bool) error {
	if c10StartFails {
		return errors.New("fail to start the task")
	}
	return nil
}

func c10Name(tag string, L int) string {
	s := vStr(tag, L)
	vAssume(s != "")
	return s
}

type c10Spec struct {
	db, coll string // "*" = all; db of a CollectionInfos request is "default"
	taskID   string
	live     bool
	noAuto   bool // disable_auto_start: the task is registered but not started when the server reloads it
	exclude  []c10Pat // specs owned by other tasks when this one was accepted
}

type c10Pat struct{ db, coll string }

// c10Covers: pattern (pdb, pcoll) names the concrete collection (db, coll).
func c10Covers(pdb, pcoll, db, coll string) bool {
	return vAnd(vOr(pdb == "*", pdb == db), vOr(pcoll == "*", pcoll == coll))
}

// c10Request builds a create request for one spec.
func c10Request(sp *c10Spec, useDBForm bool) *request.CreateRequest {
	req := &request.CreateRequest{MilvusConnectParam: model.MilvusConnectParam{URI: "http://target:19530"}, DisableAutoStart: sp.noAuto}
	ci := []model.CollectionInfo{{Name: sp.coll}}
	if useDBForm {
		req.DBCollections = map[string][]model.CollectionInfo{sp.db: ci}
	} else {
		req.CollectionInfos = ci
	}
	return req
}

// data-path and DDL-path selection of one task for a concrete source collection
func c10DataPath(info *meta.TaskInfo, db, coll string) bool {
	_, ok := GetShouldReadFunc(info)(&coremodel.DatabaseInfo{Name: db}, &pb.CollectionInfo{Schema: &schemapb.CollectionSchema{Name: coll}})
	return ok
}

func c10DDLPath(info *meta.TaskInfo, db, coll string) bool {
	cis := GetCollectionInfos(info, db, coll)
	if cis == nil {
		return false
	}
	return MatchCollection(info, cis, db, coll)
}

// VerifC10_DeepHistory: longer create/delete histories over four concrete specification
// shapes (a.b, a.*, *.b, *.*), then the symbolic probe and the bookkeeping conditions.
func VerifC10_DeepHistory() { VerifC10_History() }

// VerifC10_DeepHistorySymbolicProbe: the deep histories with a symbolic probe (thorough tier)
func VerifC10_DeepHistorySymbolicProbe() { VerifC10_History() }

// VerifC10_History: K create/delete requests on one target, then a symbolic probe.
func VerifC10_History() {
	K, L := vParam("K", 2), vParam("L", 1)
	f := newSFactory()
	cdc := sNewCDC(f)
	sUUID = 0
	uKey := "http://target:19530"
	var specs []*c10Spec
	// deep histories: every task of the history is created with or without disable_auto_start
	// (matters at the reload below: such tasks are registered but not started)
	menuNoAuto := vParam("MENU", 0) == 1 && vBool("menu.disableAutoStart")
	for k := 0; k < K; k++ {
		liveIdx := []int{}
		for i, s := range specs {
			if s.live {
				liveIdx = append(liveIdx, i)
			}
		}
		if len(liveIdx) > 0 && vChoice("kind", 2) == 1 {
			// delete an accepted task
			sp := specs[liveIdx[vChoice("victim", len(liveIdx))]]
			_, err := cdc.Delete(&request.DeleteRequest{TaskID: sp.taskID})
			vAssert(err == nil, "C10.delete-accepted")
			sp.live = false
			continue
		}
		var sp *c10Spec
		useDBForm := true
		if vParam("MENU", 0) == 1 {
			// deep histories: the specification is one of four concrete shapes (a.b, a.*, *.b, *.* - the
			// names lie inside the probe's alphabet), no faults
			sp = &c10Spec{db: []string{"a", "*"}[vChoice("menu.db", 2)], coll: []string{"b", "*"}[vChoice("menu.coll", 2)]}
			sp.noAuto = menuNoAuto
			c10StartFails, f.faults = false, false
		} else {
			sp = &c10Spec{coll: c10Name("spec.coll", L), noAuto: k == 0 && vBool("spec.disableAutoStart")}
			useDBForm = vBool("spec.dbForm")
			if useDBForm {
				sp.db = c10Name("spec.db", L)
			} else {
				sp.db = cdcreader.DefaultDatabase
			}
			// a create may fail at start, or at one store call (not both: a failing start whose
			// clean-up also fails is a double fault outside the statement's quantifier)
			c10StartFails = vBool("startFails")
			f.faults = !c10StartFails
		}
		f.nFault = 0
		preData := append([]string(nil), cdc.collectionNames.data[uKey]...)
		preExcl := append([]string(nil), cdc.collectionNames.excludeData[uKey]...)
		resp, err := cdc.Create(c10Request(sp, useDBForm))
		f.faults = false
		if err != nil {
			// a rejected / failed request leaves the bookkeeping as before
			vAssert(c10SameList(cdc.collectionNames.data[uKey], preData), "C10.rejected-create-leaves-names-unchanged")
			vAssert(c10SameList(cdc.collectionNames.excludeData[uKey], preExcl), "C10.rejected-create-leaves-excludes-unchanged")
			continue
		}
		sp.taskID, sp.live = resp.TaskID, true
		for _, o := range specs {
			if o.live {
				sp.exclude = append(sp.exclude, c10Pat{o.db, o.coll})
			}
		}
		specs = append(specs, sp)
	}
	// ---- probe ----
	type probe struct{ db, coll string }
	var probes []probe
	if vParam("MENU", 0) == 1 && vParam("PROBE", 0) == 1 {
		// deep histories over the concrete menu: the probes are the four classes of source
		// collections the menu's names distinguish (named db / other db x named collection / other),
		// all of them examined on every history
		probes = []probe{{"a", "b"}, {"a", "a"}, {"b", "b"}, {"b", "a"}}
	} else {
		pdb, pcoll := c10Name("probe.db", L), c10Name("probe.coll", L)
		vAssume(vAnd(pdb != "*", pcoll != "*"))
		probes = []probe{{pdb, pcoll}}
	}
	for _, pr := range probes {
		c10Probe(cdc, specs, pr.db, pr.coll)
	}
	vAssert(len(cdc.cdcTasks.data) == c10Live(specs), "C10.registered-tasks-are-the-accepted-live-ones")
	// bookkeeping equals what the live tasks imply
	var wantData []string
	for _, sp := range specs {
		if sp.live {
			wantData = append(wantData, util.GetFullCollectionName(sp.coll, sp.db))
		}
	}
	vAssert(c10SameMultiset(cdc.collectionNames.data[uKey], wantData), "C10.names-bookkeeping-equals-live-tasks")
	var wantExcl []string
	for _, sp := range specs {
		if sp.live {
			wantExcl = append(wantExcl, cdc.cdcTasks.data[sp.taskID].ExcludeCollections...)
		}
	}
	vAssert(c10SameSet(cdc.collectionNames.excludeData[uKey], wantExcl), "C10.exclude-bookkeeping-equals-live-tasks")
	// restart: a fresh server reloads the persisted tasks and rebuilds the same bookkeeping
	cdc2 := sNewCDC(f)
	c10StartFails = false
	cdc2.ReloadTask()
	vAssert(c10SameMultiset(cdc2.collectionNames.data[uKey], wantData), "C10.reload-rebuilds-names")
	vAssert(c10SameSet(cdc2.collectionNames.excludeData[uKey], wantExcl), "C10.reload-rebuilds-excludes")
	vReach("end")
}


// c10Probe: the selection conditions for one source collection (pdb, pcoll)
func c10Probe(cdc *MetaCDC, specs []*c10Spec, pdb, pcoll string) {
	owners := 0
	for _, sp := range specs {
		if !sp.live {
			continue
		}
		info := cdc.cdcTasks.data[sp.taskID]
		vAssert(info != nil, "C10.accepted-task-is-registered")
		if info == nil {
			continue
		}
		data, ddl := c10DataPath(info, pdb, pcoll), c10DDLPath(info, pdb, pcoll)
		vAssert(data == ddl, "C10.data-path-and-ddl-path-agree")
		inSpec := c10Covers(sp.db, sp.coll, pdb, pcoll)
		vAssert(vImplies(data, inSpec), "C10.selects-only-what-the-spec-names")
		excluded := false
		for _, x := range sp.exclude {
			excluded = vOr(excluded, c10Covers(x.db, x.coll, pdb, pcoll))
		}
		vAssert(vImplies(vAnd(inSpec, !excluded), data), "C10.selects-everything-named-and-not-excluded")
		if data {
			owners++
		}
	}
	// Known finding C10-partial-wildcard-overlap: two live specs that overlap although
	// neither covers the other ("*.c" with "d.*") are not detected as duplicates
	partial := false
	for i, a := range specs {
		for j, b := range specs {
			if i < j && a.live && b.live {
				cross := vOr(vAnd(vAnd(a.db == "*", a.coll != "*"), vAnd(b.db != "*", b.coll == "*")),
					vAnd(vAnd(b.db == "*", b.coll != "*"), vAnd(a.db != "*", a.coll == "*")))
				partial = vOr(partial, cross)
			}
		}
	}
	vKnown("C10-partial-wildcard-overlap", partial)
	vAssert(owners <= 1, "C10.at-most-one-task-selects-a-collection")
}

func c10SameList(a, b []string) bool {
	if len(a) != len(b) {
		return false
	}
	ok := true
	for i := range a {
		ok = vAnd(ok, a[i] == b[i])
	}
	return ok
}

func c10Count(x string, l []string) int {
	n := 0
	for _, y := range l {
		if x == y {
			n++
		}
	}
	return n
}

func c10SameMultiset(a, b []string) bool {
	if len(a) != len(b) {
		return false
	}
	for _, x := range a {
		if c10Count(x, a) != c10Count(x, b) {
			return false
		}
	}
	return true
}

func c10SameSet(a, b []string) bool {
	for _, x := range a {
		if c10Count(x, b) == 0 {
			return false
		}
	}
	for _, x := range b {
		if c10Count(x, a) == 0 {
			return false
		}
	}
	return true
}

func c10Live(specs []*c10Spec) int {
	n := 0
	for _, s := range specs {
		if s.live {
			n++
		}
	}
	return n
}
