//go:build verif

package writer

// C07 harness: the bytes sent downstream decode to the emitted messages, marked
// as replicated. Real code: ChannelWriter.HandleReplicateMessage,
// mapDBAndCollectionName, replicateMessageManager.ReplicateMessage,
// replicateMessageHandler.{handleMessage, startHandleMessageLoop, close}.
// Abstraction: under the executor proto.Marshal is an injective snapshot of the
// message at call time; natively the real bytes are decoded with Milvus' own
// message decoders (so the replayed checks run on the real wire format).

import (
	"context"
	"encoding/base64"

	"github.com/milvus-io/milvus-proto/go-api/v2/commonpb"
	"github.com/milvus-io/milvus-proto/go-api/v2/msgpb"
	"github.com/milvus-io/milvus-proto/go-api/v2/schemapb"
	"github.com/milvus-io/milvus/pkg/mq/msgstream"
	"google.golang.org/protobuf/proto"

	"github.com/zilliztech/milvus-cdc/core/api"
)

var c07Marshalled []proto.Message

func c07Marshal(m proto.Message) ([]byte, error) {
	c07Marshalled = append(c07Marshalled, proto.Clone(m))
	return []byte{byte(len(c07Marshalled))}, nil
}

var c07Kinds = []string{"Insert", "Delete", "DropPartition", "DropCollection", "Import", "TimeTick"}

// c07Decode returns the decoded request of one serialized message.
func c07Decode(kind string, tickBecomesReplicate bool, b []byte) proto.Message {
	if vSymbolic() {
		return c07Marshalled[int(b[0])-1]
	}
	var tm msgstream.TsMsg
	var err error
	switch kind {
	case "Insert":
		tm, err = (&msgstream.InsertMsg{}).Unmarshal(b)
		if err == nil {
			return tm.(*msgstream.InsertMsg).InsertRequest
		}
	case "Delete":
		tm, err = (&msgstream.DeleteMsg{}).Unmarshal(b)
		if err == nil {
			return tm.(*msgstream.DeleteMsg).DeleteRequest
		}
	case "DropPartition":
		tm, err = (&msgstream.DropPartitionMsg{}).Unmarshal(b)
		if err == nil {
			return tm.(*msgstream.DropPartitionMsg).DropPartitionRequest
		}
	case "DropCollection":
		tm, err = (&msgstream.DropCollectionMsg{}).Unmarshal(b)
		if err == nil {
			return tm.(*msgstream.DropCollectionMsg).DropCollectionRequest
		}
	case "Import":
		tm, err = (&msgstream.ImportMsg{}).Unmarshal(b)
		if err == nil {
			return tm.(*msgstream.ImportMsg).ImportMsg
		}
	case "TimeTick":
		if tickBecomesReplicate {
			tm, err = (&msgstream.ReplicateMsg{}).Unmarshal(b)
			if err == nil {
				return tm.(*msgstream.ReplicateMsg).ReplicateMsg
			}
		} else {
			tm, err = (&msgstream.TimeTickMsg{}).Unmarshal(b)
			if err == nil {
				return tm.(*msgstream.TimeTickMsg).TimeTickMsg
			}
		}
	}
	panic(err)
}

type c07Src struct {
	kind                   string
	ts                     uint64
	db, coll, part, shard  string
	collID, partID, segID  int64
	numRows                uint64
	rowID                  int64
	rowTs                  uint64
	hadReplicateInfo       bool
	oldReplicateID         string
	msg                    msgstream.TsMsg
}

func c07Build(L int) *c07Src {
	s := &c07Src{kind: c07Kinds[vChoice("kind", len(c07Kinds))], ts: vU64("msg.ts"),
		db: vStr("msg.db", L), coll: vStr("msg.coll", L), part: vStr("msg.part", L), shard: vStr("msg.shard", L),
		collID: vI64("msg.collID"), partID: vI64("msg.partID"), segID: vI64("msg.segID"),
		numRows: vU64("msg.numRows"), rowID: vI64("msg.rowID"), rowTs: vU64("msg.rowTs")}
	vAssume(s.coll != "") // a DML message always names its collection
	bm := msgstream.BaseMsg{BeginTimestamp: vU64("msg.beginTs"), EndTimestamp: s.ts, HashValues: []uint32{0}}
	base := func(t commonpb.MsgType) *commonpb.MsgBase {
		b := &commonpb.MsgBase{MsgType: t, MsgID: 7, Timestamp: s.ts, SourceID: 3}
		if vBool("msg.hasReplicateInfo") {
			// e.g. the source is itself a replication target: a stale info is already present
			s.hadReplicateInfo, s.oldReplicateID = true, vStr("msg.oldReplicateID", 2)
			b.ReplicateInfo = &commonpb.ReplicateInfo{IsReplicate: vBool("msg.oldIsReplicate"), ReplicateID: s.oldReplicateID, MsgTimestamp: 5}
		}
		return b
	}
	switch s.kind {
	case "Insert":
		s.msg = &msgstream.InsertMsg{BaseMsg: bm, InsertRequest: &msgpb.InsertRequest{Base: base(commonpb.MsgType_Insert), DbName: s.db, CollectionName: s.coll, PartitionName: s.part, ShardName: s.shard,
			CollectionID: s.collID, PartitionID: s.partID, SegmentID: s.segID, NumRows: s.numRows, RowIDs: []int64{s.rowID}, Timestamps: []uint64{s.rowTs}}}
	case "Delete":
		s.msg = &msgstream.DeleteMsg{BaseMsg: bm, DeleteRequest: &msgpb.DeleteRequest{Base: base(commonpb.MsgType_Delete), DbName: s.db, CollectionName: s.coll, PartitionName: s.part, ShardName: s.shard,
			CollectionID: s.collID, PartitionID: s.partID, NumRows: int64(s.numRows), PrimaryKeys: &schemapb.IDs{IdField: &schemapb.IDs_IntId{IntId: &schemapb.LongArray{Data: []int64{s.rowID}}}}, Timestamps: []uint64{s.rowTs}}}
	case "DropPartition":
		s.msg = &msgstream.DropPartitionMsg{BaseMsg: bm, DropPartitionRequest: &msgpb.DropPartitionRequest{Base: base(commonpb.MsgType_DropPartition), DbName: s.db, CollectionName: s.coll, PartitionName: s.part,
			CollectionID: s.collID, PartitionID: s.partID}}
	case "DropCollection":
		s.msg = &msgstream.DropCollectionMsg{BaseMsg: bm, DropCollectionRequest: &msgpb.DropCollectionRequest{Base: base(commonpb.MsgType_DropCollection), DbName: s.db, CollectionName: s.coll, CollectionID: s.collID}}
	case "Import":
		s.msg = &msgstream.ImportMsg{BaseMsg: bm, ImportMsg: &msgpb.ImportMsg{Base: base(commonpb.MsgType_Import), DbName: s.db, CollectionName: s.coll, CollectionID: s.collID, PartitionIDs: []int64{s.partID}, JobID: s.segID}}
	case "TimeTick":
		s.msg = &msgstream.TimeTickMsg{BaseMsg: bm, TimeTickMsg: &msgpb.TimeTickMsg{Base: &commonpb.MsgBase{MsgType: commonpb.MsgType_TimeTick, Timestamp: s.ts}}}
	}
	return s
}

type c07Based interface{ GetBase() *commonpb.MsgBase }

// c07Check compares the decoded message with its source.
func c07Check(s *c07Src, got proto.Message, replicateID, wantDB, wantColl string) {
	b := got.(c07Based).GetBase()
	tickToReplicate := s.kind == "TimeTick" && replicateID != ""
	if replicateID != "" {
		vAssert(b.GetReplicateInfo() != nil && vAnd(b.GetReplicateInfo().GetIsReplicate(), b.GetReplicateInfo().GetReplicateID() == replicateID), "C07.every-message-carries-the-replicate-id:"+s.kind)
	} else if s.kind != "TimeTick" {
		if s.hadReplicateInfo {
			vAssert(b.GetReplicateInfo() != nil && b.GetReplicateInfo().GetReplicateID() == s.oldReplicateID, "C07.message-base-untouched-without-replicate-id")
		} else {
			vAssert(b.GetReplicateInfo() == nil, "C07.message-base-untouched-without-replicate-id")
		}
	}
	switch m := got.(type) {
	case *msgpb.InsertRequest:
		vAssert(s.kind == "Insert" && int32(b.GetMsgType()) == int32(commonpb.MsgType_Insert), "C07.type-and-order-kept")
		vAssert(vAnd(m.DbName == wantDB, m.CollectionName == wantColl), "C07.names-are-the-mapped-source-names")
		vAssert(vAnd(vAnd(m.PartitionName == s.part, m.ShardName == s.shard), vAnd(vAnd(m.CollectionID == s.collID, m.PartitionID == s.partID), m.SegmentID == s.segID)), "C07.ids-kept:Insert")
		vAssert(vAnd(m.NumRows == s.numRows, len(m.RowIDs) == 1 && len(m.Timestamps) == 1), "C07.rows-kept:Insert")
		if len(m.RowIDs) == 1 && len(m.Timestamps) == 1 {
			vAssert(vAnd(m.RowIDs[0] == s.rowID, m.Timestamps[0] == s.rowTs), "C07.rows-kept:Insert")
		}
		vAssert(b.GetTimestamp() == s.ts, "C07.timestamp-kept")
	case *msgpb.DeleteRequest:
		vAssert(s.kind == "Delete", "C07.type-and-order-kept")
		vAssert(vAnd(m.DbName == wantDB, m.CollectionName == wantColl), "C07.names-are-the-mapped-source-names")
		vAssert(vAnd(vAnd(m.PartitionName == s.part, m.ShardName == s.shard), vAnd(m.CollectionID == s.collID, m.PartitionID == s.partID)), "C07.ids-kept:Delete")
		pks := m.GetPrimaryKeys().GetIntId().GetData()
		vAssert(m.NumRows == int64(s.numRows) && len(pks) == 1 && len(m.Timestamps) == 1, "C07.rows-kept:Delete")
		if len(pks) == 1 && len(m.Timestamps) == 1 {
			vAssert(vAnd(pks[0] == s.rowID, m.Timestamps[0] == s.rowTs), "C07.rows-kept:Delete")
		}
		vAssert(b.GetTimestamp() == s.ts, "C07.timestamp-kept")
	case *msgpb.DropPartitionRequest:
		vAssert(s.kind == "DropPartition", "C07.type-and-order-kept")
		vAssert(vAnd(m.DbName == wantDB, m.CollectionName == wantColl), "C07.names-are-the-mapped-source-names")
		vAssert(vAnd(m.PartitionName == s.part, vAnd(m.CollectionID == s.collID, m.PartitionID == s.partID)), "C07.ids-kept:DropPartition")
		vAssert(b.GetTimestamp() == s.ts, "C07.timestamp-kept")
	case *msgpb.DropCollectionRequest:
		vAssert(s.kind == "DropCollection", "C07.type-and-order-kept")
		vAssert(vAnd(m.DbName == wantDB, m.CollectionName == wantColl), "C07.names-are-the-mapped-source-names")
		vAssert(m.CollectionID == s.collID, "C07.ids-kept:DropCollection")
		vAssert(b.GetTimestamp() == s.ts, "C07.timestamp-kept")
	case *msgpb.ImportMsg:
		vAssert(s.kind == "Import", "C07.type-and-order-kept")
		vAssert(vAnd(m.DbName == wantDB, m.CollectionName == wantColl), "C07.names-are-the-mapped-source-names")
		vAssert(vAnd(m.CollectionID == s.collID, m.JobID == s.segID) && len(m.PartitionIDs) == 1, "C07.ids-kept:Import")
	case *msgpb.TimeTickMsg:
		vAssert(s.kind == "TimeTick" && !tickToReplicate, "C07.type-and-order-kept")
		vAssert(b.GetTimestamp() == s.ts, "C07.timestamp-kept")
	case *msgpb.ReplicateMsg:
		vAssert(tickToReplicate, "C07.tick-converted-only-with-replicate-id")
		vAssert(vAnd(int32(b.GetMsgType()) == int32(commonpb.MsgType_Replicate), b.GetTimestamp() == s.ts), "C07.replicate-tick-keeps-the-tick-time")
		vAssert(!m.GetIsEnd(), "C07.replicate-tick-is-not-an-end-marker")
	default:
		vAssert(false, "C07.unexpected-decoded-type")
	}
}

// VerifC07_Pack: one pack of M messages through the real writer and the real
// per-channel message manager.
func VerifC07_Pack() {
	L, M := vParam("L", 2), vParam("M", 2)
	c07Marshalled = nil
	h := newWHandler()
	fails := vBool("downstreamFails")
	targetPos := base64.StdEncoding.EncodeToString([]byte("target-position"))
	h.onResult = func(kind string, n int) error {
		if fails {
			return errDownstream
		}
		h.calls[len(h.calls)-1].param.(*api.ReplicateMessageParam).TargetMsgPosition = targetPos
		return nil
	}
	rid := ""
	if vBool("withReplicateID") {
		rid = "rid"
	}
	w := wNewWriter(h, &wMeta{}, nil, "milvus", rid)
	// optional name mapping: one exact entry for the first message's names
	n := 1 + vChoice("nmsgs", M)
	var srcs []*c07Src
	pack := &msgstream.MsgPack{BeginTs: vU64("pack.beginTs"), EndTs: vU64("pack.endTs"),
		StartPositions: []*msgpb.MsgPosition{{ChannelName: "tgt_1v0", MsgID: []byte("start-id"), Timestamp: vU64("pack.startPosTs")}},
		EndPositions:   []*msgpb.MsgPosition{{ChannelName: "tgt_1v0", MsgID: []byte("end-id-0"), Timestamp: vU64("pack.endPosTs")}, {ChannelName: "tgt_1v0", MsgID: []byte("end-id-last"), Timestamp: vU64("pack.endPosTs2")}}}
	for i := 0; i < n; i++ {
		s := c07Build(L)
		srcs = append(srcs, s)
		pack.Msgs = append(pack.Msgs, s.msg)
	}
	mapped := vBool("withMapping")
	if mapped {
		vAssume(vAnd(srcs[0].db != "", srcs[0].coll != "*"))
		w.UpdateNameMappings(map[string]string{srcs[0].db + "." + srcs[0].coll: "tdb.tcoll"})
	}
	wantNames := func(s *c07Src) (string, string) {
		db := vIteStr(s.db == "", "default", s.db)
		src0db := vIteStr(srcs[0].db == "", "default", srcs[0].db)
		hit := vAnd(mapped, vAnd(db == src0db, s.coll == srcs[0].coll))
		return vIteStr(hit, "tdb", db), vIteStr(hit, "tcoll", s.coll)
	}
	wants := make([][2]string, n)
	for i, s := range srcs {
		wants[i][0], wants[i][1] = wantNames(s)
	}
	channel := "target-pchannel"
	id, tpos, err := w.HandleReplicateMessage(context.Background(), channel, pack)
	calls := h.callsOf("ReplicateMessage")
	vAssert(len(h.calls) == 1 && len(calls) == 1, "C07.exactly-one-downstream-call")
	if len(calls) != 1 {
		return
	}
	p := calls[0].param.(*api.ReplicateMessageParam)
	vAssert(p.Base != nil && p.Base.ReplicateInfo != nil && p.Base.ReplicateInfo.IsReplicate, "C07.call-flagged-as-replication")
	vAssert(p.ChannelName == channel, "C07.channel-kept")
	vAssert(vAnd(p.BeginTs == pack.BeginTs, p.EndTs == pack.EndTs), "C07.pack-timestamps-kept")
	vAssert(len(p.StartPositions) == 1 && p.StartPositions[0] == pack.StartPositions[0] && len(p.EndPositions) == 2 && p.EndPositions[0] == pack.EndPositions[0] && p.EndPositions[1] == pack.EndPositions[1], "C07.positions-kept")
	vAssert(len(p.MsgsBytes) == n, "C07.one-serialized-message-per-pack-message")
	if len(p.MsgsBytes) == n {
		for i, s := range srcs {
			c07Check(s, c07Decode(s.kind, rid != "", p.MsgsBytes[i]), rid, wants[i][0], wants[i][1])
		}
	}
	if fails {
		vAssert(err != nil, "C07.downstream-error-is-returned")
		vAssert(id == nil && tpos == nil, "C07.no-checkpoint-on-error")
	} else {
		vAssert(err == nil, "C07.success-returns-nil")
		vAssert(string(id) == "end-id-last", "C07.checkpoint-is-the-last-end-position-id")
		vAssert(string(tpos) == "target-position", "C07.target-position-decoded")
	}
	vReach("end")
}

// VerifC07_Empty: an empty pack is rejected without a downstream call.
func VerifC07_Empty() {
	h := newWHandler()
	w := wNewWriter(h, &wMeta{}, nil, "milvus", "")
	_, _, err := w.HandleReplicateMessage(context.Background(), "ch", &msgstream.MsgPack{})
	vAssert(err != nil && len(h.calls) == 0, "C07.empty-pack-rejected")
	vReach("end")
}

// VerifC07_TwoChannels: two concurrent calls on different channels (the real
// per-channel handler goroutines): each caller gets its own result.
func VerifC07_TwoChannels() {
	c07Marshalled = nil
	h := newWHandler()
	failA, failB := vBool("failA"), vBool("failB")
	h.onResult = func(kind string, n int) error {
		p := h.calls[len(h.calls)-1].param.(*api.ReplicateMessageParam)
		if (p.ChannelName == "chA" && failA) || (p.ChannelName == "chB" && failB) {
			return errDownstream
		}
		p.TargetMsgPosition = base64.StdEncoding.EncodeToString([]byte("pos-" + p.ChannelName))
		return nil
	}
	w := wNewWriter(h, &wMeta{}, nil, "milvus", "")
	mk := func(ch string) *msgstream.MsgPack {
		s := &wSrc{db: "db", coll: "c-" + ch, parts: []string{"p"}}
		return &msgstream.MsgPack{BeginTs: 1, EndTs: 2, Msgs: []msgstream.TsMsg{wBuildDML("Insert", s, 2)},
			StartPositions: []*msgpb.MsgPosition{{ChannelName: ch, MsgID: []byte("s-" + ch)}},
			EndPositions:   []*msgpb.MsgPosition{{ChannelName: ch, MsgID: []byte("e-" + ch)}}}
	}
	var idA, idB, tA, tB []byte
	var errA, errB error
	doneA, doneB := false, false
	go func() { idA, tA, errA = w.HandleReplicateMessage(context.Background(), "chA", mk("chA")); doneA = true }()
	go func() { idB, tB, errB = w.HandleReplicateMessage(context.Background(), "chB", mk("chB")); doneB = true }()
	vQuiesce()
	vAssert(doneA && doneB, "C07.both-calls-return")
	vAssert(len(h.callsOf("ReplicateMessage")) == 2, "C07.one-downstream-call-each")
	vAssert((errA != nil) == failA && (errB != nil) == failB, "C07.each-caller-gets-its-own-error")
	if !failA {
		vAssert(string(idA) == "e-chA" && string(tA) == "pos-chA", "C07.caller-A-gets-its-own-checkpoint")
	}
	if !failB {
		vAssert(string(idB) == "e-chB" && string(tB) == "pos-chB", "C07.caller-B-gets-its-own-checkpoint")
	}
	vReach("end")
}

// VerifC07_TwoChannelsInFlight: channel A's downstream call is still in flight (held by the
// fake downstream) while channel B's pack is serialized and sent through the same writer:
// the bytes of each request still decode to that request's own messages.
func VerifC07_TwoChannelsInFlight() {
	c07Marshalled = nil
	h := newWHandler()
	bArrived := make(chan struct{})
	decodedColl := map[string]string{}
	h.onResult = func(kind string, n int) error {
		p := h.calls[len(h.calls)-1].param.(*api.ReplicateMessageParam)
		if p.ChannelName == "chB" {
			close(bArrived)
		} else {
			<-bArrived // A's call returns only after B's request has been built and sent
		}
		// what the downstream reads from the request when it finally processes it
		if len(p.MsgsBytes) >= 1 {
			if m, ok := c07Decode("Insert", false, p.MsgsBytes[0]).(*msgpb.InsertRequest); ok && m != nil {
				decodedColl[p.ChannelName] = m.GetCollectionName()
			}
		}
		p.TargetMsgPosition = base64.StdEncoding.EncodeToString([]byte("pos-" + p.ChannelName))
		return nil
	}
	w := wNewWriter(h, &wMeta{}, nil, "milvus", "")
	mk := func(ch string) *msgstream.MsgPack {
		s := &wSrc{db: "db", coll: "c-" + ch, parts: []string{"p"}}
		return &msgstream.MsgPack{BeginTs: 1, EndTs: 2, Msgs: []msgstream.TsMsg{wBuildDML("Insert", s, 2)},
			StartPositions: []*msgpb.MsgPosition{{ChannelName: ch, MsgID: []byte("s-" + ch)}},
			EndPositions:   []*msgpb.MsgPosition{{ChannelName: ch, MsgID: []byte("e-" + ch)}}}
	}
	doneA, doneB := false, false
	go func() { w.HandleReplicateMessage(context.Background(), "chA", mk("chA")); doneA = true }()
	vQuiesce() // A's request is built and its downstream call is being held
	go func() { w.HandleReplicateMessage(context.Background(), "chB", mk("chB")); doneB = true }()
	vQuiesce()
	vQuiesce()
	vAssert(doneA && doneB, "C07.both-calls-return")
	vAssert(decodedColl["chA"] == "c-chA", "C07.request-in-flight-still-decodes-to-its-own-messages")
	vAssert(decodedColl["chB"] == "c-chB", "C07.request-in-flight-still-decodes-to-its-own-messages")
	vReach("end")
}
