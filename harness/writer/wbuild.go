//go:build verif

package writer

// Builders for every replicated operation kind (18 op messages, 4 API events,
// DML messages) from one source description, shared by C07/C09/C20.

import (
	"github.com/milvus-io/milvus-proto/go-api/v2/commonpb"
	"github.com/milvus-io/milvus-proto/go-api/v2/milvuspb"
	"github.com/milvus-io/milvus-proto/go-api/v2/msgpb"
	"github.com/milvus-io/milvus-proto/go-api/v2/schemapb"
	"github.com/milvus-io/milvus/pkg/mq/msgstream"

	"github.com/zilliztech/milvus-cdc/core/api"
	"github.com/zilliztech/milvus-cdc/core/pb"
)

type wSrc struct {
	db, coll    string
	parts       []string
	colls       []string
	index       string
	field       string
	extraK      []string
	extraV      []string
	replica     int32
	user        string
	password    string
	oldPassword string
	newPassword string
	role        string
	urType      int32
	privObject  string
	privObjName string
	privName    string
	privDB      string
	privType    int32
	grantor     string
	propsK      []string
	propsV      []string
	// stale: the source message already carries a ReplicateInfo (the source cluster is
	// itself a replication target, or a producer left an empty info)
	stale *commonpb.ReplicateInfo
}

var wCurStale *commonpb.ReplicateInfo

var wOpKinds = []string{
	"CreateDatabase", "DropDatabase", "AlterDatabase", "Flush", "CreateIndex", "DropIndex", "AlterIndex",
	"LoadCollection", "ReleaseCollection", "LoadPartitions", "ReleasePartitions",
	"CreateUser", "DeleteUser", "UpdateUser", "CreateRole", "DropRole", "OperateUserRole", "OperatePrivilege",
}

var wEventKinds = []string{"CreateCollection", "DropCollection", "CreatePartition", "DropPartition"}

func wKV(ks, vs []string) []*commonpb.KeyValuePair {
	var r []*commonpb.KeyValuePair
	for i := range ks {
		r = append(r, &commonpb.KeyValuePair{Key: ks[i], Value: vs[i]})
	}
	return r
}

func wMsgBase(t commonpb.MsgType) *commonpb.MsgBase {
	b := &commonpb.MsgBase{MsgType: t, MsgID: 77, SourceID: 5}
	if wCurStale != nil {
		cp := *wCurStale
		b.ReplicateInfo = &cp
	}
	return b
}

// wBuildOp builds the op message of the given kind from s, stamped ts.
func wBuildOp(kind string, s *wSrc, ts uint64) msgstream.TsMsg {
	bm := wBase(ts, 0)
	wCurStale = s.stale
	defer func() { wCurStale = nil }()
	switch kind {
	case "CreateDatabase":
		return &msgstream.CreateDatabaseMsg{BaseMsg: bm, CreateDatabaseRequest: &milvuspb.CreateDatabaseRequest{Base: wMsgBase(commonpb.MsgType_CreateDatabase), DbName: s.db}}
	case "DropDatabase":
		return &msgstream.DropDatabaseMsg{BaseMsg: bm, DropDatabaseRequest: &milvuspb.DropDatabaseRequest{Base: wMsgBase(commonpb.MsgType_DropDatabase), DbName: s.db}}
	case "AlterDatabase":
		return &msgstream.AlterDatabaseMsg{BaseMsg: bm, AlterDatabaseRequest: &milvuspb.AlterDatabaseRequest{Base: wMsgBase(commonpb.MsgType_AlterDatabase), DbName: s.db, Properties: wKV(s.propsK, s.propsV)}}
	case "Flush":
		colls := s.colls
		if colls == nil {
			colls = []string{s.coll}
		}
		return &msgstream.FlushMsg{BaseMsg: bm, FlushRequest: &milvuspb.FlushRequest{Base: wMsgBase(commonpb.MsgType_Flush), DbName: s.db, CollectionNames: colls}}
	case "CreateIndex":
		return &msgstream.CreateIndexMsg{BaseMsg: bm, CreateIndexRequest: &milvuspb.CreateIndexRequest{Base: wMsgBase(commonpb.MsgType_CreateIndex), DbName: s.db, CollectionName: s.coll, FieldName: s.field, IndexName: s.index, ExtraParams: wKV(s.extraK, s.extraV)}}
	case "DropIndex":
		return &msgstream.DropIndexMsg{BaseMsg: bm, DropIndexRequest: &milvuspb.DropIndexRequest{Base: wMsgBase(commonpb.MsgType_DropIndex), DbName: s.db, CollectionName: s.coll, FieldName: s.field, IndexName: s.index}}
	case "AlterIndex":
		return &msgstream.AlterIndexMsg{BaseMsg: bm, AlterIndexRequest: &milvuspb.AlterIndexRequest{Base: wMsgBase(commonpb.MsgType_AlterIndex), DbName: s.db, CollectionName: s.coll, IndexName: s.index, ExtraParams: wKV(s.extraK, s.extraV)}}
	case "LoadCollection":
		return &msgstream.LoadCollectionMsg{BaseMsg: bm, LoadCollectionRequest: &milvuspb.LoadCollectionRequest{Base: wMsgBase(commonpb.MsgType_LoadCollection), DbName: s.db, CollectionName: s.coll, ReplicaNumber: s.replica}}
	case "ReleaseCollection":
		return &msgstream.ReleaseCollectionMsg{BaseMsg: bm, ReleaseCollectionRequest: &milvuspb.ReleaseCollectionRequest{Base: wMsgBase(commonpb.MsgType_ReleaseCollection), DbName: s.db, CollectionName: s.coll}}
	case "LoadPartitions":
		return &msgstream.LoadPartitionsMsg{BaseMsg: bm, LoadPartitionsRequest: &milvuspb.LoadPartitionsRequest{Base: wMsgBase(commonpb.MsgType_LoadPartitions), DbName: s.db, CollectionName: s.coll, PartitionNames: s.parts, ReplicaNumber: s.replica}}
	case "ReleasePartitions":
		return &msgstream.ReleasePartitionsMsg{BaseMsg: bm, ReleasePartitionsRequest: &milvuspb.ReleasePartitionsRequest{Base: wMsgBase(commonpb.MsgType_ReleasePartitions), DbName: s.db, CollectionName: s.coll, PartitionNames: s.parts}}
	case "CreateUser":
		return &msgstream.CreateUserMsg{BaseMsg: bm, CreateCredentialRequest: &milvuspb.CreateCredentialRequest{Base: wMsgBase(commonpb.MsgType_CreateCredential), Username: s.user, Password: s.password}}
	case "DeleteUser":
		return &msgstream.DeleteUserMsg{BaseMsg: bm, DeleteCredentialRequest: &milvuspb.DeleteCredentialRequest{Base: wMsgBase(commonpb.MsgType_DeleteCredential), Username: s.user}}
	case "UpdateUser":
		return &msgstream.UpdateUserMsg{BaseMsg: bm, UpdateCredentialRequest: &milvuspb.UpdateCredentialRequest{Base: wMsgBase(commonpb.MsgType_UpdateCredential), Username: s.user, OldPassword: s.oldPassword, NewPassword: s.newPassword}}
	case "CreateRole":
		return &msgstream.CreateRoleMsg{BaseMsg: bm, CreateRoleRequest: &milvuspb.CreateRoleRequest{Base: wMsgBase(commonpb.MsgType_CreateRole), Entity: &milvuspb.RoleEntity{Name: s.role}}}
	case "DropRole":
		return &msgstream.DropRoleMsg{BaseMsg: bm, DropRoleRequest: &milvuspb.DropRoleRequest{Base: wMsgBase(commonpb.MsgType_DropRole), RoleName: s.role}}
	case "OperateUserRole":
		return &msgstream.OperateUserRoleMsg{BaseMsg: bm, OperateUserRoleRequest: &milvuspb.OperateUserRoleRequest{Base: wMsgBase(commonpb.MsgType_OperateUserRole), Username: s.user, RoleName: s.role, Type: milvuspb.OperateUserRoleType(s.urType)}}
	case "OperatePrivilege":
		return &msgstream.OperatePrivilegeMsg{BaseMsg: bm, OperatePrivilegeRequest: &milvuspb.OperatePrivilegeRequest{Base: wMsgBase(commonpb.MsgType_OperatePrivilege), Type: milvuspb.OperatePrivilegeType(s.privType),
			Entity: &milvuspb.GrantEntity{Role: &milvuspb.RoleEntity{Name: s.role}, Object: &milvuspb.ObjectEntity{Name: s.privObject}, ObjectName: s.privObjName, DbName: s.privDB,
				Grantor: &milvuspb.GrantorEntity{User: &milvuspb.UserEntity{Name: s.grantor}, Privilege: &milvuspb.PrivilegeEntity{Name: s.privName}}}}}
	}
	return nil
}

// wBuildEvent builds an API event of the given kind.
func wBuildEvent(kind string, s *wSrc, ts uint64) *api.ReplicateAPIEvent {
	part := ""
	if len(s.parts) > 0 {
		part = s.parts[0]
	}
	ev := &api.ReplicateAPIEvent{
		CollectionInfo: &pb.CollectionInfo{ID: 100, Schema: &schemapb.CollectionSchema{Name: s.coll}},
		PartitionInfo:  &pb.PartitionInfo{PartitionID: 200, PartitionName: part, CollectionId: 100},
		ReplicateInfo:  &commonpb.ReplicateInfo{IsReplicate: true, MsgTimestamp: ts},
		ReplicateParam: api.ReplicateParam{Database: s.db},
		TaskID:         "task", MsgID: "msg",
	}
	switch kind {
	case "CreateCollection":
		ev.EventType = api.ReplicateCreateCollection
	case "DropCollection":
		ev.EventType = api.ReplicateDropCollection
	case "CreatePartition":
		ev.EventType = api.ReplicateCreatePartition
	case "DropPartition":
		ev.EventType = api.ReplicateDropPartition
	}
	return ev
}

var wDMLKinds = []string{"Insert", "Delete", "DropPartition", "DropCollection", "Import"}

// wBuildDML builds a DML message of the given kind.
func wBuildDML(kind string, s *wSrc, ts uint64) msgstream.TsMsg {
	bm := wBase(ts, 0)
	part := ""
	if len(s.parts) > 0 {
		part = s.parts[0]
	}
	switch kind {
	case "Insert":
		return &msgstream.InsertMsg{BaseMsg: bm, InsertRequest: &msgpb.InsertRequest{Base: wMsgBase(commonpb.MsgType_Insert), DbName: s.db, CollectionName: s.coll, PartitionName: part, CollectionID: 100, PartitionID: 200, ShardName: "ch_100v0", NumRows: 1, Timestamps: []uint64{ts}, RowIDs: []int64{9}}}
	case "Delete":
		return &msgstream.DeleteMsg{BaseMsg: bm, DeleteRequest: &msgpb.DeleteRequest{Base: wMsgBase(commonpb.MsgType_Delete), DbName: s.db, CollectionName: s.coll, PartitionName: part, CollectionID: 100, PartitionID: 200, ShardName: "ch_100v0", NumRows: 1, Timestamps: []uint64{ts}}}
	case "DropPartition":
		return &msgstream.DropPartitionMsg{BaseMsg: bm, DropPartitionRequest: &msgpb.DropPartitionRequest{Base: wMsgBase(commonpb.MsgType_DropPartition), DbName: s.db, CollectionName: s.coll, PartitionName: part, CollectionID: 100, PartitionID: 200}}
	case "DropCollection":
		return &msgstream.DropCollectionMsg{BaseMsg: bm, DropCollectionRequest: &msgpb.DropCollectionRequest{Base: wMsgBase(commonpb.MsgType_DropCollection), DbName: s.db, CollectionName: s.coll, CollectionID: 100}}
	case "Import":
		return &msgstream.ImportMsg{BaseMsg: bm, ImportMsg: &msgpb.ImportMsg{Base: wMsgBase(commonpb.MsgType_Import), DbName: s.db, CollectionName: s.coll, CollectionID: 100, PartitionIDs: []int64{200}}}
	case "TimeTick":
		return &msgstream.TimeTickMsg{BaseMsg: bm, TimeTickMsg: &msgpb.TimeTickMsg{Base: &commonpb.MsgBase{MsgType: commonpb.MsgType_TimeTick, Timestamp: ts}}}
	}
	return nil
}
