//go:build verif

package writer

// Shared fakes for the core/writer harnesses (C07, C08, C09, C20).

import (
	"time"

	"github.com/milvus-io/milvus/pkg/util/retry"
	"context"
	"errors"

	"github.com/milvus-io/milvus-proto/go-api/v2/commonpb"
	"github.com/milvus-io/milvus-proto/go-api/v2/msgpb"
	"github.com/milvus-io/milvus/pkg/mq/msgstream"

	"github.com/zilliztech/milvus-cdc/core/api"
	"github.com/zilliztech/milvus-cdc/core/config"
)

// wCall is one recorded downstream call.
type wCall struct {
	kind    string
	routeDB string // ReplicateParam.Database (what the real handler routes by)
	reqDB   string // database named inside the request body (if the request has one)
	coll    string
	part    string
	parts   []string
	colls   []string
	base    *commonpb.MsgBase
	param   interface{}
}

var errDownstream = errors.New("downstream rejected the call")

// wHandler records every downstream call; each call fails or succeeds on a free
// boolean (named after the call kind) unless onResult overrides it.
type wHandler struct {
	api.DefaultDataHandler
	calls    []wCall
	onResult func(kind string, n int) error // n = number of calls of that kind so far (1-based)
	count    map[string]int
}

func newWHandler() *wHandler { return &wHandler{count: map[string]int{}} }

func (h *wHandler) record(c wCall) error {
	h.calls = append(h.calls, c)
	h.count[c.kind]++
	if h.onResult != nil {
		return h.onResult(c.kind, h.count[c.kind])
	}
	if vBool("fail:" + c.kind) {
		return errDownstream
	}
	return nil
}

func (h *wHandler) callsOf(kind string) []wCall {
	var r []wCall
	for _, c := range h.calls {
		if c.kind == kind {
			r = append(r, c)
		}
	}
	return r
}

// nonProbeCalls returns the calls that are not readiness probes.
func (h *wHandler) nonProbeCalls() []wCall {
	var r []wCall
	for _, c := range h.calls {
		if c.kind != "DescribeDatabase" && c.kind != "DescribeCollection" && c.kind != "DescribePartition" {
			r = append(r, c)
		}
	}
	return r
}

func (h *wHandler) CreateCollection(ctx context.Context, p *api.CreateCollectionParam) error {
	return h.record(wCall{kind: "CreateCollection", routeDB: p.Database, coll: p.Schema.CollectionName, base: p.Base, param: p})
}
func (h *wHandler) DropCollection(ctx context.Context, p *api.DropCollectionParam) error {
	return h.record(wCall{kind: "DropCollection", routeDB: p.Database, coll: p.CollectionName, base: p.Base, param: p})
}
func (h *wHandler) CreatePartition(ctx context.Context, p *api.CreatePartitionParam) error {
	return h.record(wCall{kind: "CreatePartition", routeDB: p.Database, coll: p.CollectionName, part: p.PartitionName, base: p.Base, param: p})
}
func (h *wHandler) DropPartition(ctx context.Context, p *api.DropPartitionParam) error {
	return h.record(wCall{kind: "DropPartition", routeDB: p.Database, coll: p.CollectionName, part: p.PartitionName, base: p.Base, param: p})
}
func (h *wHandler) Flush(ctx context.Context, p *api.FlushParam) error {
	return h.record(wCall{kind: "Flush", routeDB: p.Database, reqDB: p.GetDbName(), colls: p.GetCollectionNames(), base: p.GetBase(), param: p})
}
func (h *wHandler) LoadCollection(ctx context.Context, p *api.LoadCollectionParam) error {
	return h.record(wCall{kind: "LoadCollection", routeDB: p.Database, reqDB: p.GetDbName(), coll: p.GetCollectionName(), base: p.GetBase(), param: p})
}
func (h *wHandler) ReleaseCollection(ctx context.Context, p *api.ReleaseCollectionParam) error {
	return h.record(wCall{kind: "ReleaseCollection", routeDB: p.Database, reqDB: p.GetDbName(), coll: p.GetCollectionName(), base: p.GetBase(), param: p})
}
func (h *wHandler) LoadPartitions(ctx context.Context, p *api.LoadPartitionsParam) error {
	return h.record(wCall{kind: "LoadPartitions", routeDB: p.Database, reqDB: p.GetDbName(), coll: p.GetCollectionName(), parts: p.GetPartitionNames(), base: p.GetBase(), param: p})
}
func (h *wHandler) ReleasePartitions(ctx context.Context, p *api.ReleasePartitionsParam) error {
	return h.record(wCall{kind: "ReleasePartitions", routeDB: p.Database, reqDB: p.GetDbName(), coll: p.GetCollectionName(), parts: p.GetPartitionNames(), base: p.GetBase(), param: p})
}
func (h *wHandler) CreateIndex(ctx context.Context, p *api.CreateIndexParam) error {
	return h.record(wCall{kind: "CreateIndex", routeDB: p.Database, reqDB: p.GetDbName(), coll: p.GetCollectionName(), base: p.GetBase(), param: p})
}
func (h *wHandler) DropIndex(ctx context.Context, p *api.DropIndexParam) error {
	return h.record(wCall{kind: "DropIndex", routeDB: p.Database, reqDB: p.GetDbName(), coll: p.GetCollectionName(), base: p.GetBase(), param: p})
}
func (h *wHandler) AlterIndex(ctx context.Context, p *api.AlterIndexParam) error {
	return h.record(wCall{kind: "AlterIndex", routeDB: p.Database, reqDB: p.GetDbName(), coll: p.GetCollectionName(), base: p.GetBase(), param: p})
}
func (h *wHandler) CreateDatabase(ctx context.Context, p *api.CreateDatabaseParam) error {
	return h.record(wCall{kind: "CreateDatabase", routeDB: p.Database, reqDB: p.GetDbName(), base: p.GetBase(), param: p})
}
func (h *wHandler) DropDatabase(ctx context.Context, p *api.DropDatabaseParam) error {
	return h.record(wCall{kind: "DropDatabase", routeDB: p.Database, reqDB: p.GetDbName(), base: p.GetBase(), param: p})
}
func (h *wHandler) AlterDatabase(ctx context.Context, p *api.AlterDatabaseParam) error {
	return h.record(wCall{kind: "AlterDatabase", routeDB: p.Database, reqDB: p.GetDbName(), base: p.GetBase(), param: p})
}
func (h *wHandler) ReplicateMessage(ctx context.Context, p *api.ReplicateMessageParam) error {
	return h.record(wCall{kind: "ReplicateMessage", routeDB: p.Database, base: p.Base, param: p})
}
func (h *wHandler) DescribeCollection(ctx context.Context, p *api.DescribeCollectionParam) error {
	return h.record(wCall{kind: "DescribeCollection", routeDB: p.Database, coll: p.Name, param: p})
}
func (h *wHandler) DescribeDatabase(ctx context.Context, p *api.DescribeDatabaseParam) error {
	return h.record(wCall{kind: "DescribeDatabase", routeDB: p.Database, reqDB: p.Name, param: p})
}
func (h *wHandler) DescribePartition(ctx context.Context, p *api.DescribePartitionParam) error {
	return h.record(wCall{kind: "DescribePartition", routeDB: p.Database, coll: p.CollectionName, part: p.PartitionName, param: p})
}
func (h *wHandler) CreateUser(ctx context.Context, p *api.CreateUserParam) error {
	return h.record(wCall{kind: "CreateUser", routeDB: p.Database, base: p.GetBase(), param: p})
}
func (h *wHandler) DeleteUser(ctx context.Context, p *api.DeleteUserParam) error {
	return h.record(wCall{kind: "DeleteUser", routeDB: p.Database, base: p.GetBase(), param: p})
}
func (h *wHandler) UpdateUser(ctx context.Context, p *api.UpdateUserParam) error {
	return h.record(wCall{kind: "UpdateUser", routeDB: p.Database, base: p.GetBase(), param: p})
}
func (h *wHandler) CreateRole(ctx context.Context, p *api.CreateRoleParam) error {
	return h.record(wCall{kind: "CreateRole", routeDB: p.Database, base: p.GetBase(), param: p})
}
func (h *wHandler) DropRole(ctx context.Context, p *api.DropRoleParam) error {
	return h.record(wCall{kind: "DropRole", routeDB: p.Database, base: p.GetBase(), param: p})
}
func (h *wHandler) OperateUserRole(ctx context.Context, p *api.OperateUserRoleParam) error {
	return h.record(wCall{kind: "OperateUserRole", routeDB: p.Database, base: p.GetBase(), param: p})
}
func (h *wHandler) OperatePrivilege(ctx context.Context, p *api.OperatePrivilegeParam) error {
	return h.record(wCall{kind: "OperatePrivilege", routeDB: p.Database, base: p.GetBase(), param: p})
}

// wMeta is a recording api.ReplicateMeta.
type wMeta struct {
	removed [][2]string
	fail    bool
}

func (m *wMeta) UpdateTaskDropCollectionMsg(ctx context.Context, msg api.TaskDropCollectionMsg) (bool, error) {
	return true, nil
}
func (m *wMeta) GetTaskDropCollectionMsg(ctx context.Context, taskID string, msgID string) ([]api.TaskDropCollectionMsg, error) {
	return nil, nil
}
func (m *wMeta) UpdateTaskDropPartitionMsg(ctx context.Context, msg api.TaskDropPartitionMsg) (bool, error) {
	return true, nil
}
func (m *wMeta) GetTaskDropPartitionMsg(ctx context.Context, taskID string, msgID string) ([]api.TaskDropPartitionMsg, error) {
	return nil, nil
}
func (m *wMeta) RemoveTaskMsg(ctx context.Context, taskID string, msgID string) error {
	m.removed = append(m.removed, [2]string{taskID, msgID})
	if m.fail {
		return errors.New("meta store failure")
	}
	return nil
}

// wNewWriter builds the REAL ChannelWriter through its constructor.
func wNewWriter(h api.DataHandler, meta api.ReplicateMeta, dropped map[string]map[string]uint64, downstream, replicateID string) *ChannelWriter {
	w := NewChannelWriter(h, meta, config.WriterConfig{MessageBufferSize: 4, ReplicateID: replicateID}, dropped, downstream)
	cw := w.(*ChannelWriter)
	// R attempts without real back-off (the executor models retry.Do as R attempts; natively the
	// default options would sleep for seconds on every failing probe)
	cw.retryOptions = []retry.Option{retry.Attempts(uint(vParam("R", 2))), retry.Sleep(time.Millisecond), retry.MaxSleepTime(time.Millisecond)}
	return cw
}

// wOpPack wraps one op message in a pack whose end position carries ts.
func wOpPack(ts uint64, msgs ...msgstream.TsMsg) *msgstream.MsgPack {
	return &msgstream.MsgPack{
		BeginTs: ts, EndTs: ts, Msgs: msgs,
		StartPositions: []*msgpb.MsgPosition{{ChannelName: "rpc", MsgID: []byte("start"), Timestamp: ts}},
		EndPositions:   []*msgpb.MsgPosition{{ChannelName: "rpc", MsgID: []byte("end"), Timestamp: ts}},
	}
}

func wBase(ts uint64, t commonpb.MsgType) msgstream.BaseMsg {
	return msgstream.BaseMsg{BeginTimestamp: ts, EndTimestamp: ts, HashValues: []uint32{0}}
}
