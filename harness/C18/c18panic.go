//go:build verif

package server

// C18 on the handler's crash path: a request handler panics AFTER the create request (with its
// credentials) has been decoded. Whatever the HTTP layer then does - net/http recovers the
// panic per connection; a handler may recover it itself to answer with an error - neither the
// log nor a response may contain the credentials of the request that triggered it.

import (
	"encoding/json"
	"errors"
	"io"
	"net/http"

	"github.com/mitchellh/mapstructure"

	"github.com/zilliztech/milvus-cdc/server/model/request"
)

type c18Body struct{ data []byte }

func (b *c18Body) Read(p []byte) (int, error) { return 0, errors.New("harness: Read is replaced by c18ReadAll") }
func (b *c18Body) Close() error              { return nil }

func c18ReadAll(r io.Reader) ([]byte, error) { return r.(*c18Body).data, nil }

func c18HeaderSet(h http.Header, key, value string) {}

// a service whose create handler hits a runtime panic (nil map, nil pointer, an explicit panic
// such as the one in getUniqueKey) after it was handed the decoded request
type c18PanicAPI struct{ *BaseCDC }

func (c18PanicAPI) Create(req *request.CreateRequest) (*request.CreateResponse, error) {
	var m map[string]string
	m[req.MilvusConnectParam.URI] = "x" // assignment to entry in nil map
	return nil, nil
}

func VerifC18_HandlerPanic() {
	sec := &c18Secrets{}
	req, raw := c18Request(sec)
	data := map[string]any{}
	if err := mapstructure.Decode(req, &data); err != nil {
		panic("harness: cannot build request_data: " + err.Error())
	}
	for k, v := range raw {
		data[k] = v
	}
	body := &c18Body{}
	body.data, _ = json.Marshal(&request.CDCRequest{RequestType: request.Create, RequestData: data})
	srv := &CDCServer{api: c18PanicAPI{NewBaseCDC()}, serverConfig: &CDCServerConfig{}}
	w := &sRespWriter{hdr: http.Header{}}
	vLogMark()
	func() {
		// what net/http does around every handler call
		defer func() { _ = recover() }()
		srv.getCDCHandler().ServeHTTP(w, &http.Request{Method: "POST", Body: body})
	}()
	sec.assertNoLogLeak("handler-panic")
	for _, b := range w.writes {
		sec.assertNoResponseLeak(string(b), "handler-panic")
	}
	vReach("end")
}
