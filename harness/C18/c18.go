//go:build verif

package server

// C18 harness: credentials never reach an API response or a log statement.
// Real code: handleRequest / GetRequestInfo, Create with validCreateRequest, the
// duplicate check, startInternal, newReplicateEntity, pauseTaskWithReason, delete,
// Get / List with request.GetTask, Pause, ReloadTask - every log statement on the way
// is an observed sink. The secrets are symbolic strings; the obligation is
// non-interference: no value handed to a log call and no response depends on them.

import (
	"strings"

	"github.com/zilliztech/milvus-cdc/server/model"
	"github.com/zilliztech/milvus-cdc/server/model/request"
)

func c18Secret(tag string) string {
	s := vStr(tag, 6)
	vAssume(vAnd(strings.HasPrefix(s, "zq"), len(s) >= 4)) // a recognisable, non-empty marker
	return s
}

type c18Secrets struct {
	names  []string
	values []string
}

func (s *c18Secrets) add(tag string) string {
	v := c18Secret(tag)
	s.names = append(s.names, tag)
	s.values = append(s.values, v)
	return v
}

func (s *c18Secrets) assertNoLogLeak(where string) {
	for i, v := range s.values {
		vAssert(!vLogLeaks(v), "C18.log-free-of-"+s.names[i]+":"+where)
	}
}

func (s *c18Secrets) assertNoResponseLeak(resp any, where string) {
	for i, v := range s.values {
		vAssert(!vLeaks(resp, v), "C18.response-free-of-"+s.names[i]+":"+where)
	}
}

// c18Request: a create request carrying every credential field of its target kind. The
// connect parameters are sent as a generic nested object whose credential keys use one of
// the spellings the decoder accepts (it matches keys case-insensitively).
func c18Request(sec *c18Secrets) (*request.CreateRequest, map[string]any) {
	req := &request.CreateRequest{CollectionInfos: []model.CollectionInfo{{Name: "a"}}}
	spell := func(k string) string {
		switch vChoice("keySpelling", 3) {
		case 1:
			return strings.ToUpper(k[:1]) + k[1:]
		case 2:
			return strings.ToUpper(k)
		}
		return k
	}
	raw := map[string]any{}
	switch vChoice("target", 3) {
	case 0: // milvus, user + password
		raw["milvus_connect_param"] = map[string]any{"uri": c18T1, "username": "root", spell("password"): sec.add("milvus-password")}
	case 1: // milvus, token
		raw["milvus_connect_param"] = map[string]any{"uri": c18T1, spell("token"): sec.add("milvus-token")}
	case 2: // kafka with SASL
		// the sasl block may be filled in while enable_sasl is off: the record keeps it all the same
		raw["kafka_connect_param"] = map[string]any{"address": "k:9092", "topic": "t", "enable_sasl": vBool("kafka.enableSASL"),
			"sasl": map[string]any{spell("username"): sec.add("sasl-username"), spell("password"): sec.add("sasl-password"), "mechanisms": "PLAIN"}}
	}
	return req, raw
}

// VerifC18_Create: a create request with credentials, a failure injected at one step of
// create / start (or none), then get, list, pause and a reload by a restarted server.
func VerifC18_Create() {
	w := sNewWorld()
	srv := &CDCServer{api: w.cdc, serverConfig: w.cdc.config}
	sec := &c18Secrets{}
	req, raw := c18Request(sec)
	switch vChoice("failure", 9) {
	case 0: // none
	case 1: // rejected by the validation
		req.BufferConfig.Period = -1
	case 2: // downstream connect check fails
		sConnectFails = true
	case 3: // the metadata store fails at some call of create
		w.f.faults = true
	case 4:
		w.connectFails = true
	case 5:
		w.etcdFails = true
	case 6:
		w.mgrFails = true
	case 7:
		w.readerFails = true
	case 8:
		w.chReaderFails = true
	}
	vLogMark()
	isErr, _, resp := c18DoRaw(srv, request.Create, req, raw)
	w.f.faults = false
	sec.assertNoLogLeak("create")
	sec.assertNoResponseLeak(resp, "create")
	if isErr {
		vReach("end")
		return
	}
	taskID := resp.(*request.CreateResponse).TaskID
	_, _, r1 := c18Do(srv, request.Get, &request.GetRequest{TaskID: taskID})
	sec.assertNoResponseLeak(r1, "get")
	_, _, r2 := c18Do(srv, request.List, &request.ListRequest{})
	sec.assertNoResponseLeak(r2, "list")
	c18Do(srv, request.Pause, &request.PauseRequest{TaskID: taskID})
	sec.assertNoLogLeak("get-list-pause")
	// resume (the start may fail at some step), then the position query
	switch vChoice("resumeFailure", 4) {
	case 1:
		w.connectFails = true
	case 2:
		w.chReaderFails = true
	case 3:
		w.f.faults = true
	}
	_, _, r4 := c18Do(srv, request.Resume, &request.ResumeRequest{TaskID: taskID})
	w.connectFails, w.chReaderFails, w.f.faults = false, false, false
	sec.assertNoLogLeak("resume")
	sec.assertNoResponseLeak(r4, "resume")
	_, _, r5 := c18Do(srv, request.GetPosition, &request.GetPositionRequest{TaskID: taskID})
	sec.assertNoResponseLeak(r5, "position")
	// restart: a fresh server reloads the persisted task; the start may fail again
	w2cdc := sNewCDC(w.f)
	switch vChoice("reloadFailure", 3) {
	case 1:
		w.connectFails = true
	case 2:
		w.readerFails = true
	}
	w2cdc.ReloadTask()
	sec.assertNoLogLeak("reload")
	srv2 := &CDCServer{api: w2cdc, serverConfig: w2cdc.config}
	_, _, r3 := c18Do(srv2, request.Get, &request.GetRequest{TaskID: taskID})
	sec.assertNoResponseLeak(r3, "get-after-reload")
	_, _, r6 := c18Do(srv2, request.Delete, &request.DeleteRequest{TaskID: taskID})
	sec.assertNoResponseLeak(r6, "delete")
	sec.assertNoLogLeak("delete")
	vReach("end")
}
const c18T1 = "http://t1:19530"
