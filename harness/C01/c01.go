//go:build verif

package reader

// Harness world shared by C01 (stream complete / duplicate-free / ordered /
// payload-exact), C02 (re-addressing and routing) and C06-H1 (a reader failure is
// reported, never a crash). Real code: innerHandleReplicateMsg, handlePack,
// getCollectionTargetInfo, getPartitionID(s), isDroppingPartition,
// RemoveCollection, RemovePartitionInfo, updateTargetPartitionInfo,
// getPartitionInfoForMilvus, isSupportedMsgType, resetMsgPackTimestamp,
// resetMsgTimestamp, copyDropTypeMsg, copyMsgPositions, api.GetReplicateMsg, the
// tsManager clock and SendTargetMsg.

import (
	"context"
	"math"

	"github.com/milvus-io/milvus-proto/go-api/v2/commonpb"
	"github.com/milvus-io/milvus-proto/go-api/v2/milvuspb"
	"github.com/milvus-io/milvus-proto/go-api/v2/msgpb"
	"github.com/milvus-io/milvus/pkg/mq/msgstream"

	"github.com/zilliztech/milvus-cdc/core/api"
	"github.com/zilliztech/milvus-cdc/core/model"
)

type c01MetaOp struct{ api.DefaultMetaOp }

func (m *c01MetaOp) GetDatabaseInfoForCollection(ctx context.Context, id int64) model.DatabaseInfo {
	return model.DatabaseInfo{ID: 1, Name: "db"}
}

var c01Kinds = []string{"Insert", "Delete", "DropPartition", "Import", "TimeTick", "CreateCollection", "CreatePartition", "Flush", "DropCollection"}

type c01In struct {
	kind   string
	msg    msgstream.TsMsg
	ts     uint64
	id     string // unique source message id (kept by the rewrite)
	partID int64
	part   string
	rows   int
}

type c01World struct {
	env         *rHandlerEnv
	info        *model.TargetCollectionInfo
	ti          *tsInfo
	collBarrier chan *model.BarrierSignal
	partBarrier chan *model.BarrierSignal
	srcVCh      string
	posCh       string // channel named by the source message positions (vchannel, or the physical channel)
	srcColl     int64
	srcPart     int64
	tgtPartID   int64
	lazyPart    bool // the downstream partition id is only learned through the target API
	srcDropped  bool // collection dropped on the source (droppedCollections)
	infoDropped bool
	partDropped bool
	partDroping bool
}

// c01NewWorld: one handler, one registered collection with one named partition;
// every "is it dropped" table is symbolic.
func c01NewWorld(allowDropped bool) *c01World {
	w := &c01World{env: rNewHandler(rSrcP, rTgtP), srcVCh: rSrcP + "_100v0", srcColl: 100, srcPart: 11, tgtPartID: 911,
		collBarrier: make(chan *model.BarrierSignal, 4), partBarrier: make(chan *model.BarrierSignal, 4)}
	w.env.h.metaOp = &c01MetaOp{}
	w.info = &model.TargetCollectionInfo{DatabaseName: "db", CollectionID: 900, CollectionName: "coll", PartitionInfo: map[string]int64{},
		PChannel: rTgtP, VChannel: rTgtP + "_900v0", BarrierChan: model.NewOnceWriteChan[*model.BarrierSignal](w.collBarrier),
		PartitionBarrierChan: map[int64]*model.OnceWriteChan[*model.BarrierSignal]{w.srcPart: model.NewOnceWriteChan[*model.BarrierSignal](w.partBarrier)},
		DroppedPartition:     map[int64]struct{}{}}
	w.env.target.parts["p"] = w.tgtPartID
	w.lazyPart = vBool("world.partitionLearnedLazily")
	if !w.lazyPart {
		w.info.PartitionInfo["p"] = w.tgtPartID
	}
	if allowDropped {
		w.srcDropped, w.infoDropped = vBool("world.collectionDroppedOnSource"), vBool("world.collectionMarkedDropped")
		w.partDropped, w.partDroping = vBool("world.partitionDropped"), vBool("world.partitionDropping")
	}
	w.env.droppedC[w.srcColl] = w.srcDropped
	w.env.droppedP[w.srcPart] = w.partDropped
	w.info.Dropped = w.infoDropped
	if w.partDroping {
		w.info.DroppedPartition[w.srcPart] = struct{}{}
	}
	w.env.rRegister(w.srcColl, w.info)
	w.ti = rInitTS(rTgtP, math.MaxUint64)
	return w
}

func (w *c01World) build(kind string, i int, ts uint64) *c01In {
	in := &c01In{kind: kind, ts: ts, id: "m" + string(rune('0'+i)), partID: w.srcPart, part: "p", rows: 2}
	if w.posCh == "" {
		w.posCh = w.srcVCh
	}
	pos := rPos(w.posCh, in.id, ts)
	switch kind {
	case "Insert":
		in.msg = rInsert(w.srcColl, w.srcPart, "p", w.srcVCh, ts, pos, 2)
	case "Delete":
		in.msg = rDelete(w.srcColl, w.srcPart, "p", w.srcVCh, ts, pos, 2)
	case "DropPartition":
		in.msg = rDropPartition(w.srcColl, w.srcPart, "p", ts, pos)
	case "DropCollection":
		in.msg = rDropCollection(w.srcColl, ts, pos)
	case "Import":
		in.msg = &msgstream.ImportMsg{BaseMsg: rBase(ts, pos), ImportMsg: &msgpb.ImportMsg{Base: &commonpb.MsgBase{MsgType: commonpb.MsgType_Import, Timestamp: ts},
			DbName: "db", CollectionName: "coll", CollectionID: w.srcColl, PartitionIDs: []int64{w.srcPart}, JobID: 77}}
	case "TimeTick":
		in.msg = rTick(ts, pos)
	case "CreateCollection":
		in.msg = &msgstream.CreateCollectionMsg{BaseMsg: rBase(ts, pos), CreateCollectionRequest: &msgpb.CreateCollectionRequest{Base: &commonpb.MsgBase{MsgType: commonpb.MsgType_CreateCollection, Timestamp: ts}, CollectionID: w.srcColl, CollectionName: "coll"}}
	case "CreatePartition":
		in.msg = &msgstream.CreatePartitionMsg{BaseMsg: rBase(ts, pos), CreatePartitionRequest: &msgpb.CreatePartitionRequest{Base: &commonpb.MsgBase{MsgType: commonpb.MsgType_CreatePartition, Timestamp: ts}, CollectionID: w.srcColl, PartitionID: w.srcPart, PartitionName: "p"}}
	case "Flush":
		in.msg = &msgstream.FlushMsg{BaseMsg: rBase(ts, pos), FlushRequest: &milvuspb.FlushRequest{Base: &commonpb.MsgBase{MsgType: commonpb.MsgType_Flush, Timestamp: ts}, DbName: "db", CollectionNames: []string{"coll"}}}
	}
	return in
}

// pack: M messages of one stream; a DropCollection, if any, is the only DML of the
// collection from then on (nothing follows the drop of its own collection).
func (w *c01World) pack(M int, zeroBegin bool) (*msgstream.MsgPack, []*c01In) {
	b, e := vU64("pack.beginTs"), vU64("pack.endTs")
	vAssume(vAnd(vAnd(b >= 1, b <= e), e < c03Lim))
	n := vChoice("nmsgs", M+1)
	pack := &msgstream.MsgPack{BeginTs: b, EndTs: e,
		StartPositions: []*msgpb.MsgPosition{rPos(w.srcVCh, "start", b)}, EndPositions: []*msgpb.MsgPosition{rPos(w.srcVCh, "end", e)}}
	var ins []*c01In
	hasDropColl := false
	for i := 0; i < n; i++ {
		// NK limits the kinds to the first NK of the list (plus DropCollection), for the deeper tiers
		kinds := c01Kinds
		if NK := vParam("NK", len(c01Kinds)); NK < len(c01Kinds)-1 {
			kinds = append(append([]string{}, c01Kinds[:NK]...), "DropCollection")
		}
		nk := len(kinds)
		if i > 0 || n > 1 {
			nk-- // DropCollection only as a pack of its own
		}
		k := kinds[vChoice("kind", nk)]
		ts := vU64("msg.ts")
		vAssume(vAnd(ts >= b, ts <= e))
		in := w.build(k, i, ts)
		hasDropColl = hasDropColl || k == "DropCollection"
		pack.Msgs = append(pack.Msgs, in.msg)
		ins = append(ins, in)
	}
	// source contract: a partition is dropped once, and nothing addressed to it follows
	// (or shares the timestamp of) its drop message in the stream
	nDrop := 0
	for _, d := range ins {
		if d.kind != "DropPartition" {
			continue
		}
		nDrop++
		for _, o := range ins {
			if o.kind == "Insert" || o.kind == "Delete" {
				vAssume(o.ts < d.ts)
			}
		}
	}
	vAssume(nDrop <= 1)
	if zeroBegin {
		pack.BeginTs = 0
	}
	return pack, ins
}

func c01Supported(k string) bool {
	return k == "Insert" || k == "Delete" || k == "DropPartition" || k == "DropCollection" || k == "Import"
}

func c01FindByID(ins []*c01In, m msgstream.TsMsg) *c01In {
	if m.Position() == nil {
		return nil
	}
	id := string(m.Position().GetMsgID())
	for _, in := range ins {
		if in.id == id {
			return in
		}
	}
	return nil
}

// c01Emitted drains what the handler put on the downstream channel's output queue.
func c01Emitted() []*api.ReplicateMsg {
	var out []*api.ReplicateMsg
	ch := GetTSManager().GetTargetMsgChan(rRID, rTgtP)
	for {
		select {
		case m := <-ch:
			out = append(out, m)
		default:
			return out
		}
	}
}

// VerifC01_Pack: one source pack through the real innerHandleReplicateMsg.
func VerifC01_Pack() {
	M := vParam("M", 2)
	w := c01NewWorld(true)
	pack, ins := w.pack(M, vBool("pack.beginTsIsZero"))
	// snapshot of the payload before the call
	type snap struct {
		rowIDs []int64
		nrows  uint64
		part   string
		nts    int
		pks    []int64
	}
	snaps := map[string]snap{}
	for _, in := range ins {
		switch m := in.msg.(type) {
		case *msgstream.InsertMsg:
			snaps[in.id] = snap{rowIDs: append([]int64(nil), m.RowIDs...), nrows: m.NumRows, part: m.PartitionName, nts: len(m.Timestamps)}
		case *msgstream.DeleteMsg:
			snaps[in.id] = snap{pks: append([]int64(nil), m.Int64PrimaryKeys...), nrows: uint64(m.NumRows), part: m.PartitionName, nts: len(m.Timestamps)}
		case *msgstream.DropPartitionMsg:
			snaps[in.id] = snap{part: m.PartitionName}
		}
	}
	src := api.GetReplicateMsg(rSrcP, "coll", w.srcColl, pack, "task-7")
	w.env.h.innerHandleReplicateMsg(false, src)
	outs := c01Emitted()
	// drop messages are shared: the MQ hands the same message object to every stream of the
	// collection, so re-addressing must work on a copy - the object that was read keeps its
	// source ids (otherwise the other shards' streams lose the message)
	for _, in := range ins {
		switch m := in.msg.(type) {
		case *msgstream.DropPartitionMsg:
			vAssert(m.CollectionID == w.srcColl && m.PartitionID == w.srcPart, "C01.shared-drop-message-keeps-its-source-ids")
		case *msgstream.DropCollectionMsg:
			vAssert(m.CollectionID == w.srcColl, "C01.shared-drop-message-keeps-its-source-ids")
		}
	}
	vAssert(len(outs) <= 1, "C01.one-source-pack-gives-at-most-one-emitted-pack")
	vAssert(len(w.env.eventChan) == 0, "C01.no-error-event-for-a-registered-collection")
	collGone := vOr(w.srcDropped, w.infoDropped)
	partGone := vOr(w.partDropped, w.partDroping)
	// which inputs MUST appear
	mustCount := 0
	dropPartSeen := false
	for _, in := range ins {
		_ = in
	}
	var emitted []msgstream.TsMsg
	if len(outs) == 1 {
		o := outs[0]
		// (e) labelled with the stream's collection, source channel and task
		vAssert(o.CollectionID == w.srcColl && o.CollectionName == "coll" && o.PChannelName == rSrcP && o.TaskID == "task-7", "C01.pack-labelled-with-collection-channel-task")
		for _, m := range o.MsgPack.Msgs {
			if !rIsTick(m) {
				emitted = append(emitted, m)
			}
		}
	}
	// (a) nothing that was not read, nothing twice
	seen := map[string]bool{}
	var prev *c01In
	for _, m := range emitted {
		in := c01FindByID(ins, m)
		vAssert(in != nil, "C01.emitted-message-was-read")
		if in == nil {
			continue
		}
		vAssert(!seen[in.id], "C01.no-message-emitted-twice")
		seen[in.id] = true
		vAssert(c01Supported(in.kind) && m.Type() == in.msg.Type(), "C01.only-dml-kinds-are-forwarded")
		vAssert(in.kind == "DropPartition" || in.kind == "DropCollection" || m == in.msg, "C01.same-message-object-except-copied-drops")
		// (c) source-time order, deletes first on ties
		if prev != nil {
			vAssert(prev.ts <= in.ts, "C01.source-timestamp-order")
			vAssert(vImplies(vAnd(prev.ts == in.ts, in.kind == "Delete"), prev.kind == "Delete"), "C01.delete-precedes-insert-on-equal-timestamps")
		}
		prev = in
		// (d) payload exact
		s := snaps[in.id]
		switch x := m.(type) {
		case *msgstream.InsertMsg:
			ok := x.NumRows == s.nrows && x.PartitionName == s.part && len(x.Timestamps) == s.nts && len(x.RowIDs) == len(s.rowIDs)
			for i := range s.rowIDs {
				ok = ok && i < len(x.RowIDs) && x.RowIDs[i] == s.rowIDs[i]
			}
			vAssert(ok, "C01.insert-payload-unchanged")
		case *msgstream.DeleteMsg:
			ok := uint64(x.NumRows) == s.nrows && x.PartitionName == s.part && len(x.Timestamps) == s.nts && len(x.Int64PrimaryKeys) == len(s.pks)
			for i := range s.pks {
				ok = ok && i < len(x.Int64PrimaryKeys) && x.Int64PrimaryKeys[i] == s.pks[i]
			}
			vAssert(ok, "C01.delete-payload-unchanged")
		case *msgstream.DropPartitionMsg:
			vAssert(x.PartitionName == s.part, "C01.drop-partition-name-unchanged")
		}
	}
	// (b) every required input is emitted. Required: a DML kind, the collection live on
	// the source, the partition neither dropped nor dropping, and not addressed to the
	// partition after its own drop message in the same pack (sorted order).
	for _, in := range ins {
		if !c01Supported(in.kind) {
			vAssert(!seen[in.id], "C01.non-dml-message-not-forwarded")
			continue
		}
		required := !collGone
		if in.kind == "DropCollection" {
			// a collection marked Dropped was dropped on the source while it still exists downstream
			// (not "dropped on both sides"): its drop message is exactly what has to be handed over
			required = !w.srcDropped
		}
		switch in.kind {
		case "Insert", "Delete", "DropPartition":
			required = vAnd(required, !partGone)
		}
		afterOwnDrop := false
		for _, o := range ins {
			if o.kind == "DropPartition" && o != in && o.ts <= in.ts && (in.kind == "Insert" || in.kind == "Delete" || in.kind == "DropPartition") {
				afterOwnDrop = true
			}
		}
		if afterOwnDrop {
			continue // messages of an object dropped on the source may be present or absent
		}
		if required {
			mustCount++
			vAssert(seen[in.id], "C01.required-message-is-emitted:"+in.kind)
		}
		dropPartSeen = dropPartSeen || in.kind == "DropPartition"
	}
	if mustCount > 0 {
		vAssert(len(outs) == 1, "C01.a-pack-with-required-messages-is-emitted")
	}
	vReach("end")
}

// VerifC01_Streams: the stream tier. Two collections registered on one handler through the
// REAL startReadChannel / AddCollection (fake streams underneath); K packs per stream with
// increasing symbolic times are pushed into the streams in an arbitrary interleaving and
// handled by the real AddCollection goroutines. On the downstream channel the packs of each
// stream appear in the order they were read, each exactly once, labelled with their own
// stream, and nothing that was not read appears.
func VerifC01_Streams() {
	K := vParam("K", 2)
	env := rNewHandler(rSrcP, rTgtP)
	env.h.startReadChannel()
	ti, _ := GetTSManager().channelTS2.Get(FormatChanKey(rRID, rTgtP))
	ti.cts, ti.lts = 0, 0
	for len(ti.targetMsgChan) > 0 {
		<-ti.targetMsgChan
	}
	vch := []string{rSrcP + "_100v0", rSrcP + "_200v0"}
	ids := []int64{100, 200}
	names := []string{"coll", "coll2"}
	for i := range ids {
		env.h.AddCollection("task-7", &model.SourceCollectionInfo{PChannel: rSrcP, VChannel: vch[i], CollectionID: ids[i]},
			&model.TargetCollectionInfo{CollectionID: 700 + ids[i], CollectionName: names[i], DatabaseName: "db",
				PartitionInfo: map[string]int64{"p": 911}, PChannel: rTgtP, VChannel: rTgtP + "_900v0",
				PartitionBarrierChan: map[int64]*model.OnceWriteChan[*model.BarrierSignal]{}, DroppedPartition: map[int64]struct{}{}})
	}
	vQuiesce()
	sent := [][]string{nil, nil}
	// the two source streams run on clocks skewed against each other by an arbitrary amount
	skew := []uint64{vU64("stream0.skew"), vU64("stream1.skew")}
	vAssume(vAnd(skew[0] < 1<<40, skew[1] < 1<<40))
	for n := 0; n < 2*K; n++ {
		s := vChoice("stream", 2)
		if len(sent[s]) >= K {
			s = 1 - s
		}
		b := skew[s] + uint64(1000*(len(sent[s])+1))
		e := b + 10
		id := names[s] + "-" + string(rune('1'+len(sent[s])))
		pos := rPos(vch[s], id, e)
		pack := &msgstream.MsgPack{BeginTs: b, EndTs: e, StartPositions: []*msgpb.MsgPosition{rPos(vch[s], id+"-start", b)}, EndPositions: []*msgpb.MsgPosition{pos}}
		// FULL=0 (quick): only the first pack of a stream may be tick-only and the packs are
		// handled as they come; FULL=1: every pack may be tick-only, batches of arrivals
		hasData := true
		if vParam("FULL", 0) == 1 || len(sent[s]) == 0 {
			hasData = vBool("pack.hasData")
		}
		if hasData {
			pack.Msgs = append(pack.Msgs, rInsert(ids[s], 11, "p", vch[s], e, rPos(vch[s], id, e), 1))
		}
		sent[s] = append(sent[s], id)
		env.streams.chans[vch[s]] <- pack
		if vParam("FULL", 0) == 1 && n%2 == 1 && vBool("handledBeforeTheNextArrives") {
			vQuiesce()
		}
	}
	vQuiesce()
	got := [][]string{nil, nil}
	for len(ti.targetMsgChan) > 0 {
		o := <-ti.targetMsgChan
		s := 0
		if o.CollectionID == 200 {
			s = 1
		}
		vAssert(o.CollectionID == ids[s] && o.CollectionName == names[s] && o.PChannelName == rSrcP && o.TaskID == "task-7", "C01.pack-labelled-with-its-own-stream")
		vAssert(len(o.MsgPack.EndPositions) == 1, "C01.pack-keeps-its-end-position")
		got[s] = append(got[s], string(o.MsgPack.EndPositions[0].MsgID))
	}
	for s := 0; s < 2; s++ {
		// every emitted pack is one that was read, in reading order, at most once; packs
		// carrying data are all there (a tick-only pack may be silent)
		j := 0
		for _, g := range got[s] {
			for j < len(sent[s]) && sent[s][j] != g {
				j++
			}
			vAssert(j < len(sent[s]), "C01.packs-of-a-stream-are-handed-over-in-reading-order-without-duplicates")
			j++
		}
	}
	vReach("end")
}
