//go:build verif

package server

import (
	"encoding/json"
	"net/http"

	"github.com/mitchellh/mapstructure"

	"github.com/zilliztech/milvus-cdc/server/model/request"
)

type sRespWriter struct {
	hdr    http.Header
	writes [][]byte
	status int
}

func (w *sRespWriter) Header() http.Header { return w.hdr }
func (w *sRespWriter) Write(b []byte) (int, error) {
	w.writes = append(w.writes, append([]byte(nil), b...))
	return len(b), nil
}
func (w *sRespWriter) WriteHeader(s int) { w.status = s }

// c18Do sends one typed request through the real handleRequest; returns
// (isError, code, response-or-error-body).
func c18Do(srv *CDCServer, typ string, model any) (bool, int, any) {
	return c18DoRaw(srv, typ, model, nil)
}

// c18DoRaw: as c18Do, but entries of `raw` replace the top-level keys of the generic
// request_data map (a client is free to send nested objects with any key spelling;
// the decoder matches keys case-insensitively).
func c18DoRaw(srv *CDCServer, typ string, model any, raw map[string]any) (bool, int, any) {
	data := map[string]any{}
	if model != nil {
		if err := mapstructure.Decode(model, &data); err != nil {
			panic("harness: cannot build request_data: " + err.Error())
		}
	}
	for k, v := range raw {
		data[k] = v
	}
	w := &sRespWriter{hdr: http.Header{}}
	resp := srv.handleRequest(&request.CDCRequest{RequestType: typ, RequestData: data}, w)
	if resp != nil {
		return false, 200, resp
	}
	var r request.CDCResponse
	if len(w.writes) == 1 {
		_ = json.Unmarshal(w.writes[0], &r)
	}
	return true, r.Code, &r
}
