//go:build verif

package server

// The "server world" shared by C05, C06 (server half), C11 and C18: the REAL
// MetaCDC (Create / Pause / Resume / Delete / Get / List / ReloadTask,
// startInternal, newReplicateEntity, pauseTaskWithReason, delete, the event /
// channel / message goroutines started by newReplicateEntity, the packer, the
// write callbacks and the store helpers) around
//   - the in-memory metadata store of scommon.go (faults on free booleans),
//   - a fake reader side: channel manager with the three channels the server
//     consumes, meta op, collection / channel readers that count starts and quits,
//   - a fake writer that acknowledges or rejects on free booleans and logs what it
//     acknowledged.
// Only constructors that would dial etcd / the MQ / Milvus are redirected; the
// code of newReplicateEntity itself is real.

import (
	"context"
	"errors"

	"github.com/milvus-io/milvus-proto/go-api/v2/msgpb"
	"github.com/milvus-io/milvus/pkg/mq/msgdispatcher"
	"github.com/milvus-io/milvus/pkg/mq/msgstream"

	coreapi "github.com/zilliztech/milvus-cdc/core/api"
	coreconfig "github.com/zilliztech/milvus-cdc/core/config"
	coremeta "github.com/zilliztech/milvus-cdc/core/meta"
	cdcreader "github.com/zilliztech/milvus-cdc/core/reader"
)

type sWorld struct {
	f   *sFactory
	cdc *MetaCDC
	// fakes created by the redirected constructors, newest last
	mgrs     []*sChanMgr
	writers  []*sWriter
	collRds  []*sReader
	chanRds  []*sReader
	connectFails bool // NewTarget fails
	etcdFails    bool // NewEtcdOp fails
	mgrFails     bool // NewReplicateChannelManager fails
	readerFails  bool // NewCollectionReader fails
	chReaderFails bool // NewChannelReader fails
}

var sW *sWorld

func sNewWorld() *sWorld {
	f := newSFactory()
	w := &sWorld{f: f, cdc: sNewCDC(f)}
	w.cdc.config.SourceConfig.ReadChanLen = 4
	sUUID = 0
	sConnectFails = false
	sW = w
	return w
}

// ---- channel manager ----

type sChanMgr struct {
	coreapi.DefaultChannelManager
	ctx         context.Context
	channelChan chan string
	eventChan   chan *coreapi.ReplicateAPIEvent
	msgChans    map[string]chan *coreapi.ReplicateMsg
}

func (m *sChanMgr) SetCtx(ctx context.Context)            { m.ctx = ctx }
func (m *sChanMgr) GetChannelChan() <-chan string        { return m.channelChan }
func (m *sChanMgr) GetEventChan() <-chan *coreapi.ReplicateAPIEvent { return m.eventChan }
func (m *sChanMgr) GetMsgChan(p string) <-chan *coreapi.ReplicateMsg {
	c, ok := m.msgChans[p]
	if !ok {
		return nil
	}
	return c
}

// sOpenChannel makes a downstream channel known to the server the way the reader does
func (m *sChanMgr) sOpenChannel(p string) chan *coreapi.ReplicateMsg {
	c := make(chan *coreapi.ReplicateMsg, 8)
	m.msgChans[p] = c
	m.channelChan <- p
	return c
}

// ---- writer ----

type sAck struct {
	channel string
	pack    *msgstream.MsgPack
}

type sWriter struct {
	coreapi.DefaultWriter
	canFail  bool
	acks     []sAck
	rejected []*msgstream.MsgPack
	events   []*coreapi.ReplicateAPIEvent
	ops      []*msgstream.MsgPack
	onEvent  func(ev *coreapi.ReplicateAPIEvent) // called when a request reaches the downstream (accepted or not)
}

var errWriter = errors.New("downstream rejects the request")

func (w *sWriter) HandleReplicateMessage(ctx context.Context, channelName string, pack *msgstream.MsgPack) ([]byte, []byte, error) {
	if w.canFail && vBool("writer.rejects-pack") {
		w.rejected = append(w.rejected, pack)
		return nil, nil, errWriter
	}
	w.acks = append(w.acks, sAck{channelName, pack})
	last := pack.EndPositions[len(pack.EndPositions)-1]
	return last.MsgID, []byte("target-" + string(last.MsgID)), nil
}

func (w *sWriter) HandleReplicateAPIEvent(ctx context.Context, ev *coreapi.ReplicateAPIEvent) error {
	if w.onEvent != nil {
		w.onEvent(ev)
	}
	if w.canFail && vBool("writer.rejects-event") {
		return errWriter
	}
	w.events = append(w.events, ev)
	return nil
}

func (w *sWriter) HandleOpMessagePack(ctx context.Context, pack *msgstream.MsgPack) ([]byte, error) {
	if w.canFail && vBool("writer.rejects-op") {
		return nil, errWriter
	}
	w.ops = append(w.ops, pack)
	return pack.EndPositions[len(pack.EndPositions)-1].MsgID, nil
}

// ---- readers ----

type sReader struct {
	coreapi.DefaultReader
	taskID   string
	started  int
	quit     int
	errCh    chan error
	seek     map[int64]map[string]*msgpb.MsgPosition
	startTs  map[int64]map[string]uint64
	handle   func(context.Context, *msgstream.MsgPack) bool
	position string
}

// sErrDuringStart: the collection reader of this task reports a read error while its (long,
// synchronous) start sequence is still running; the server's watcher goroutine handles it
// before StartRead returns
var sErrDuringStart string

func (r *sReader) StartRead(ctx context.Context) {
	r.started++
	if r.handle == nil && sErrDuringStart != "" && sErrDuringStart == r.taskID {
		r.errCh <- errors.New("fail to start to replicate a collection")
		vQuiesce()
	}
}
func (r *sReader) QuitRead(ctx context.Context)  { r.quit++ }
func (r *sReader) ErrorChan() <-chan error      { return r.errCh }
func (r *sReader) active() bool                 { return r.started > r.quit }

// ---- meta op ----

type sMetaOp struct{ coreapi.DefaultMetaOp }

func (m *sMetaOp) GetAllDroppedObj() map[string]map[string]uint64 {
	return map[string]map[string]uint64{}
}

// ---- redirect targets (same signatures as the real constructors) ----

func sNewTarget(ctx context.Context, cfg cdcreader.TargetConfig) (coreapi.TargetAPI, error) {
	if sW.connectFails {
		return nil, errors.New("fail to connect")
	}
	return &coreapi.DefaultTargetAPI{}, nil
}

func sNewEtcdOp(etcdServerConfig coreconfig.EtcdServerConfig, defaultPartitionName string, etcdConfig coreconfig.EtcdRetryConfig, target coreapi.TargetAPI) (coreapi.MetaOp, error) {
	if sW.etcdFails {
		return nil, errors.New("fail to connect the source etcd")
	}
	return &sMetaOp{}, nil
}

func sGetMsgDispatcherClient(creator cdcreader.FactoryCreator, mqConfig coreconfig.MQConfig, ttMsgStream bool) (msgdispatcher.Client, error) {
	return nil, nil
}

func sGetStreamFactory(creator cdcreader.FactoryCreator, mqConfig coreconfig.MQConfig, ttMsgStream bool) (msgstream.Factory, error) {
	return nil, nil
}

func sNewReplicateMetaImpl(store coreapi.ReplicateStore) (*coremeta.ReplicateMeteImpl, error) {
	return nil, nil
}

func sNewReplicateChannelManager(dispatchClient msgdispatcher.Client, factory msgstream.Factory, client coreapi.TargetAPI,
	readConfig coreconfig.ReaderConfig, metaOp coreapi.MetaOp, replicateMeta coreapi.ReplicateMeta,
	msgPackCallback func(string, *msgstream.MsgPack), downstream string,
) (coreapi.ChannelManager, error) {
	if sW.mgrFails {
		return nil, errors.New("fail to create the channel manager")
	}
	m := &sChanMgr{channelChan: make(chan string, 8), eventChan: make(chan *coreapi.ReplicateAPIEvent, 8), msgChans: map[string]chan *coreapi.ReplicateMsg{}}
	sW.mgrs = append(sW.mgrs, m)
	return m, nil
}

func sNewChannelWriter(dataHandler coreapi.DataHandler, replicateMeta coreapi.ReplicateMeta, writerConfig coreconfig.WriterConfig,
	droppedObjs map[string]map[string]uint64, downstream string,
) coreapi.Writer {
	w := &sWriter{}
	sW.writers = append(sW.writers, w)
	return w
}

func sNewCollectionReader(id string, channelManager coreapi.ChannelManager, metaOp coreapi.MetaOp,
	seekPosition map[int64]map[string]*msgpb.MsgPosition, channelStartTs map[int64]map[string]uint64,
	shouldReadFunc cdcreader.ShouldReadFunc, readerConfig coreconfig.ReaderConfig,
) (coreapi.Reader, error) {
	if sW.readerFails {
		return nil, errors.New("fail to new the collection reader")
	}
	r := &sReader{taskID: id, errCh: make(chan error, 1), seek: seekPosition, startTs: channelStartTs}
	sW.collRds = append(sW.collRds, r)
	return r, nil
}

func sNewChannelReader(channelName, seekPosition string, dispatchClient msgdispatcher.Client, taskID string,
	dataHandler func(context.Context, *msgstream.MsgPack) bool,
) (coreapi.Reader, error) {
	if sW.chReaderFails {
		return nil, errors.New("fail to new the channel reader")
	}
	r := &sReader{taskID: taskID, errCh: make(chan error, 1), handle: dataHandler, position: seekPosition}
	sW.chanRds = append(sW.chanRds, r)
	return r, nil
}

// sLastMgr / sLastWriter: the fakes of the most recently built entity
func (w *sWorld) sLastMgr() *sChanMgr {
	if len(w.mgrs) == 0 {
		return nil
	}
	return w.mgrs[len(w.mgrs)-1]
}
func (w *sWorld) sLastWriter() *sWriter {
	if len(w.writers) == 0 {
		return nil
	}
	return w.writers[len(w.writers)-1]
}

// activeReaders counts readers of a task that were started and not quit
func (w *sWorld) activeReaders(taskID string) int {
	n := 0
	for _, r := range w.collRds {
		if r.taskID == taskID && r.active() {
			n++
		}
	}
	for _, r := range w.chanRds {
		if r.taskID == taskID && r.active() {
			n++
		}
	}
	return n
}
