//go:build verif

package server

// Shared fakes for the server-package harnesses (C05, C06, C10, C11, C18, C19):
// an in-memory MetaStoreFactory with value semantics, per-call fault injection
// and an atomic transaction buffer, and a MetaCDC built by struct literal.

import (
	"context"
	"errors"
	"fmt"

	coreapi "github.com/zilliztech/milvus-cdc/core/api"
	coreconfig "github.com/zilliztech/milvus-cdc/core/config"
	cdcwriter "github.com/zilliztech/milvus-cdc/core/writer"
	serverapi "github.com/zilliztech/milvus-cdc/server/api"
	"github.com/zilliztech/milvus-cdc/server/model"
	"github.com/zilliztech/milvus-cdc/server/model/meta"
)

var errStore = errors.New("meta store failure")

type sTxnOp struct {
	kind string // "put-info" "del-info" "put-pos" "del-pos"
	info *meta.TaskInfo
	pos  *meta.TaskCollectionPosition
}

type sFactory struct {
	infos  []*meta.TaskInfo
	poss   []*meta.TaskCollectionPosition
	txnOps map[any][]sTxnOp
	// fault injection: when faults is set every store call may fail on a free boolean
	faults bool
	faultOn string // when set, only store calls whose name contains this text may fail (e.g. "pos": checkpoint store only)
	nFault int // faults taken so far
	maxF   int // budget of faults on one path
	// observation
	puts     int
	log      []string
	onPutPos func(p *meta.TaskCollectionPosition) // called for every checkpoint write that reaches the store
}

func newSFactory() *sFactory { return &sFactory{txnOps: map[any][]sTxnOp{}, maxF: 1} }

func (f *sFactory) fail(what string) bool {
	if !f.faults || f.nFault >= f.maxF {
		return false
	}
	if f.faultOn != "" && !sContains(what, f.faultOn) {
		return false
	}
	if vBool("fault:" + what) {
		f.nFault++
		f.log = append(f.log, "fault:"+what)
		return true
	}
	return false
}

func sCopyInfo(t *meta.TaskInfo) *meta.TaskInfo {
	c := *t
	c.ExcludeCollections = append([]string(nil), t.ExcludeCollections...)
	return &c
}

func sCopyPos(p *meta.TaskCollectionPosition) *meta.TaskCollectionPosition {
	c := *p
	cp := func(m map[string]*meta.PositionInfo) map[string]*meta.PositionInfo {
		if m == nil {
			return nil
		}
		r := map[string]*meta.PositionInfo{}
		for k, v := range m {
			x := *v
			r[k] = &x
		}
		return r
	}
	c.Positions, c.OpPositions, c.TargetPositions = cp(p.Positions), cp(p.OpPositions), cp(p.TargetPositions)
	return &c
}

type sInfoStore struct{ f *sFactory }
type sPosStore struct{ f *sFactory }

func (f *sFactory) GetTaskInfoMetaStore(ctx context.Context) serverapi.MetaStore[*meta.TaskInfo] {
	return &sInfoStore{f}
}
func (f *sFactory) GetTaskCollectionPositionMetaStore(ctx context.Context) serverapi.MetaStore[*meta.TaskCollectionPosition] {
	return &sPosStore{f}
}
func (f *sFactory) GetReplicateStore(ctx context.Context) coreapi.ReplicateStore { return nil }

type sTxn struct{ id int }

func (f *sFactory) Txn(ctx context.Context) (any, func(err error) error, error) {
	if f.fail("txn-begin") {
		return nil, nil, errStore
	}
	t := &sTxn{id: len(f.txnOps) + 1}
	f.txnOps[t] = nil
	commit := func(err error) error {
		ops := f.txnOps[t]
		delete(f.txnOps, t)
		if err != nil {
			return err
		}
		if f.fail("txn-commit") {
			return errStore
		}
		for _, op := range ops {
			f.apply(op)
		}
		return nil
	}
	return t, commit, nil
}

func (f *sFactory) apply(op sTxnOp) {
	switch op.kind {
	case "put-info":
		for i, x := range f.infos {
			if x.TaskID == op.info.TaskID {
				f.infos[i] = op.info
				return
			}
		}
		f.infos = append(f.infos, op.info)
	case "del-info":
		var keep []*meta.TaskInfo
		for _, x := range f.infos {
			if x.TaskID != op.info.TaskID {
				keep = append(keep, x)
			}
		}
		f.infos = keep
	case "put-pos":
		for i, x := range f.poss {
			if x.TaskID == op.pos.TaskID && x.CollectionID == op.pos.CollectionID {
				f.poss[i] = op.pos
				return
			}
		}
		f.poss = append(f.poss, op.pos)
	case "del-pos":
		var keep []*meta.TaskCollectionPosition
		for _, x := range f.poss {
			if !(x.TaskID == op.pos.TaskID && (op.pos.CollectionID == 0 || x.CollectionID == op.pos.CollectionID)) {
				keep = append(keep, x)
			}
		}
		f.poss = keep
	}
}

func (f *sFactory) do(op sTxnOp, txn any) error {
	if txn != nil {
		if _, ok := f.txnOps[txn]; !ok {
			return errors.New("txn not exist")
		}
		f.txnOps[txn] = append(f.txnOps[txn], op)
		return nil
	}
	f.apply(op)
	return nil
}

func (s *sInfoStore) Put(ctx context.Context, m *meta.TaskInfo, txn any) error {
	if s.f.fail("put-info") {
		return errStore
	}
	s.f.puts++
	return s.f.do(sTxnOp{kind: "put-info", info: sCopyInfo(m)}, txn)
}
func (s *sInfoStore) Get(ctx context.Context, q *meta.TaskInfo, txn any) ([]*meta.TaskInfo, error) {
	if s.f.fail("get-info") {
		return nil, errStore
	}
	var r []*meta.TaskInfo
	for _, x := range s.f.infos {
		if q.TaskID == "" || x.TaskID == q.TaskID {
			r = append(r, sCopyInfo(x))
		}
	}
	return r, nil
}
func (s *sInfoStore) Delete(ctx context.Context, q *meta.TaskInfo, txn any) error {
	if q.TaskID == "" {
		return errors.New("task id is empty")
	}
	if s.f.fail("del-info") {
		return errStore
	}
	return s.f.do(sTxnOp{kind: "del-info", info: sCopyInfo(q)}, txn)
}

func (s *sPosStore) Put(ctx context.Context, m *meta.TaskCollectionPosition, txn any) error {
	if s.f.fail("put-pos") {
		return errStore
	}
	s.f.puts++
	if s.f.onPutPos != nil {
		s.f.onPutPos(m)
	}
	return s.f.do(sTxnOp{kind: "put-pos", pos: sCopyPos(m)}, txn)
}
func (s *sPosStore) Get(ctx context.Context, q *meta.TaskCollectionPosition, txn any) ([]*meta.TaskCollectionPosition, error) {
	if s.f.fail("get-pos") {
		return nil, errStore
	}
	var r []*meta.TaskCollectionPosition
	for _, x := range s.f.poss {
		if (q.TaskID == "" || x.TaskID == q.TaskID) && (q.CollectionID == 0 || x.CollectionID == q.CollectionID) {
			r = append(r, sCopyPos(x))
		}
	}
	return r, nil
}
func (s *sPosStore) Delete(ctx context.Context, q *meta.TaskCollectionPosition, txn any) error {
	if q.TaskID == "" {
		return errors.New("task id is empty")
	}
	if s.f.fail("del-pos") {
		return errStore
	}
	return s.f.do(sTxnOp{kind: "del-pos", pos: sCopyPos(q)}, txn)
}

// sNewCDC builds a MetaCDC around the fake factory the way NewMetaCDC does
// (minus the connections to etcd / the MQ).
func sNewCDC(f *sFactory) *MetaCDC {
	cdc := &MetaCDC{
		metaStoreFactory: f,
		rootPath:         "cdc",
		config:           &CDCServerConfig{MaxTaskNum: 100, MaxNameLength: 256, SourceConfig: MilvusSourceConfig{ReplicateChan: "by-dev-replicate-msg"}},
	}
	cdc.collectionNames.data = make(map[string][]string)
	cdc.collectionNames.excludeData = make(map[string][]string)
	cdc.collectionNames.extraInfos = make(map[string]model.ExtraInfo)
	cdc.collectionNames.nameMapping = make(map[string]map[string]string)
	cdc.cdcTasks.data = make(map[string]*meta.TaskInfo)
	cdc.replicateEntityMap.data = make(map[string]*ReplicateEntity)
	return cdc
}

// ---- redirect targets ----

var (
	sUUID         int
	sConnectFails bool
)

func sGetUUID() string { sUUID++; return fmt.Sprintf("task-%d", sUUID) }

func sNewMilvusDataHandler(options ...coreconfig.Option[*cdcwriter.MilvusDataHandler]) (*cdcwriter.MilvusDataHandler, error) {
	if sConnectFails {
		return nil, errors.New("fail to connect the milvus")
	}
	return &cdcwriter.MilvusDataHandler{}, nil
}

func sNewKafkaDataHandler(options ...coreconfig.Option[*cdcwriter.KafkaDataHandler]) (*cdcwriter.KafkaDataHandler, error) {
	if sConnectFails {
		return nil, errors.New("fail to connect the kafka")
	}
	return &cdcwriter.KafkaDataHandler{}, nil
}

func sContains(s, sub string) bool {
	for i := 0; i+len(sub) <= len(s); i++ {
		if s[i:i+len(sub)] == sub {
			return true
		}
	}
	return false
}
