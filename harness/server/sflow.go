//go:build verif

package server

// Data-flow side of the server world: two tasks whose packs, events and op messages
// are pushed through the channels the REAL event / channel / message goroutines of
// newReplicateEntity consume.

import (
	"github.com/milvus-io/milvus-proto/go-api/v2/commonpb"
	"github.com/milvus-io/milvus-proto/go-api/v2/msgpb"
	"github.com/milvus-io/milvus-proto/go-api/v2/schemapb"
	"github.com/milvus-io/milvus/pkg/mq/msgstream"

	coreapi "github.com/zilliztech/milvus-cdc/core/api"
	"github.com/zilliztech/milvus-cdc/core/pb"
	"github.com/zilliztech/milvus-cdc/server/model"
	"github.com/zilliztech/milvus-cdc/server/model/meta"
	"github.com/zilliztech/milvus-cdc/server/model/request"
)

const (
	sTgtP = "tgt-dml_0"
	sSrcP = "src-dml_0"
	sLim  = uint64(1) << 62
)

type sFlow struct {
	w      *sWorld
	srv    *CDCServer
	a, b   string // task ids
	mgr    *sChanMgr
	writer *sWriter
	ch     chan *coreapi.ReplicateMsg
	bMgr   *sChanMgr
	bWriter *sWriter
	bCh    chan *coreapi.ReplicateMsg
}

func sCreateTask(srv *CDCServer, target, coll string) string {
	req := &request.CreateRequest{MilvusConnectParam: model.MilvusConnectParam{URI: target}, CollectionInfos: []model.CollectionInfo{{Name: coll}}}
	isErr, _, resp := c18Do(srv, request.Create, req)
	vAssume(!isErr)
	return resp.(*request.CreateResponse).TaskID
}

// sNewFlow: tasks A and B running, on the same target (one shared replicate entity,
// one shared downstream channel) or on two targets.
func sNewFlow(sameTarget bool) *sFlow { return sNewFlowBatch(sameTarget, 1) }

// sNewFlowBatch: the write batcher flushes every `batch` packs (its timer never fires:
// the scenario is over long before the interval; the clock is frozen under the executor)
func sNewFlowBatch(sameTarget bool, batch int) *sFlow { return sNewFlowBatchSize(sameTarget, batch, 0) }

// sNewFlowBatchSize: additionally the batcher's size threshold in KB (0 = default 512 MB)
func sNewFlowBatchSize(sameTarget bool, batch int, maxKB int) *sFlow {
	w := sNewWorld()
	w.cdc.config.Packer.MaxMsgSize = maxKB
	w.cdc.config.Packer.MaxCount = batch
	w.cdc.config.Packer.TimerInterval = 3600 * 1000
	fl := &sFlow{w: w, srv: &CDCServer{api: w.cdc, serverConfig: w.cdc.config}}
	fl.a = sCreateTask(fl.srv, "http://t1:19530", "a")
	if sameTarget {
		fl.b = sCreateTask(fl.srv, "http://t1:19530", "b")
	} else {
		fl.b = sCreateTask(fl.srv, "http://t2:19530", "b")
	}
	entA := w.cdc.replicateEntityMap.data["http://t1:19530"]
	fl.mgr, fl.writer = entA.channelManager.(*sChanMgr), entA.writerObj.(*sWriter)
	fl.ch = fl.mgr.sOpenChannel(sTgtP)
	fl.bMgr, fl.bWriter, fl.bCh = fl.mgr, fl.writer, fl.ch
	if !sameTarget {
		entB := w.cdc.replicateEntityMap.data["http://t2:19530"]
		fl.bMgr, fl.bWriter = entB.channelManager.(*sChanMgr), entB.writerObj.(*sWriter)
		fl.bCh = fl.bMgr.sOpenChannel(sTgtP)
	}
	vQuiesce()
	return fl
}

// sPack: one emitted pack of a (task, collection, source channel) stream. id is the
// message id of its end position; data packs carry one insert before the closing tick.
func sPack(task string, collID int64, collName string, id string, endTs uint64, data bool) *coreapi.ReplicateMsg {
	return sPackRows(task, collID, collName, id, endTs, data, 1)
}

// sPackRows: a data pack whose insert carries `rows` row ids (a few rows: some dozens of
// bytes; 2000 rows: far above a 1 KB size threshold of the batcher, natively and in the
// executor's size estimate alike)
func sPackRows(task string, collID int64, collName string, id string, endTs uint64, data bool, rows int) *coreapi.ReplicateMsg {
	pos := &msgpb.MsgPosition{ChannelName: sTgtP, MsgID: []byte(id), Timestamp: endTs}
	pack := &msgstream.MsgPack{BeginTs: endTs, EndTs: endTs,
		StartPositions: []*msgpb.MsgPosition{{ChannelName: sTgtP, MsgID: []byte(id + "-start"), Timestamp: endTs}},
		EndPositions:   []*msgpb.MsgPosition{pos}}
	base := msgstream.BaseMsg{BeginTimestamp: endTs, EndTimestamp: endTs, HashValues: []uint32{0}, MsgPosition: pos}
	if data {
		pack.Msgs = append(pack.Msgs, &msgstream.InsertMsg{BaseMsg: base, InsertRequest: &msgpb.InsertRequest{
			Base: &commonpb.MsgBase{MsgType: commonpb.MsgType_Insert, Timestamp: endTs}, CollectionID: collID, CollectionName: collName, NumRows: uint64(rows), RowIDs: sRowIDs(rows)}})
	}
	pack.Msgs = append(pack.Msgs, &msgstream.TimeTickMsg{BaseMsg: base, TimeTickMsg: &msgpb.TimeTickMsg{Base: &commonpb.MsgBase{MsgType: commonpb.MsgType_TimeTick, Timestamp: endTs}}})
	return &coreapi.ReplicateMsg{TaskID: task, CollectionID: collID, CollectionName: collName, PChannelName: sSrcP, MsgPack: pack}
}

func sCollInfo(id int64, name string, createTs uint64) *pb.CollectionInfo {
	return &pb.CollectionInfo{ID: id, Schema: &schemapb.CollectionSchema{Name: name}, CreateTime: createTs,
		StartPositions: []*commonpb.KeyDataPair{{Key: sSrcP + "_1v0", Data: []byte("start-" + name)}}}
}

// views of one task
func (fl *sFlow) memState(id string) (meta.TaskState, string, bool) {
	t, ok := fl.w.cdc.cdcTasks.data[id]
	if !ok {
		return 0, "", false
	}
	return t.State, t.Reason, true
}

func (fl *sFlow) apiState(id string) (string, string, bool) {
	isErr, _, resp := c18Do(fl.srv, request.Get, &request.GetRequest{TaskID: id})
	if isErr {
		return "", "", false
	}
	t := resp.(*request.GetResponse).Task
	return t.State, t.LastPauseReason, true
}

// storedPos: the persisted checkpoint (message id) of (task, collection, source channel)
func (fl *sFlow) storedPos(task string, collID int64) (string, bool) {
	for _, p := range fl.w.f.poss {
		if p.TaskID == task && p.CollectionID == collID {
			if pi, ok := p.Positions[sSrcP]; ok && pi != nil && pi.DataPair != nil {
				return string(pi.DataPair.Data), true
			}
		}
	}
	return "", false
}

func sRowIDs(n int) []int64 {
	ids := make([]int64, n)
	for i := range ids {
		ids[i] = int64(1)<<40 + int64(i)
	}
	return ids
}
