//go:build verif

package reader

// C04 harness: a drop is replayed downstream once, only after every shard reached it.
// Real code: replicateChannelManager.{StartReadCollection (with its barrier closures),
// startReadCollectionForMilvus, AddPartition (with its barrier closures),
// StopReadCollection, stopReadChannel, AddDroppedCollection/Partition}, NewBarrier (the
// barrier goroutine), model.OnceWriteChan, replicateChannelHandler.{handlePack (drop
// branches), innerHandleReplicateMsg, AddPartitionInfo (incl. the synthetic drop of a
// partition dropped while CDC was down), RemovePartitionInfo, RemoveCollection,
// getCollectionTargetInfo}. The per-channel stream plumbing of the manager
// (startReadChannel / AddCollection: stream creation, channel mapping - C16) is replaced
// by a stub that registers one handler per source channel the way the real code does;
// the harness plays the per-shard streams by calling the real innerHandleReplicateMsg.

import (
	"context"
	"errors"

	"github.com/milvus-io/milvus-proto/go-api/v2/commonpb"
	"github.com/milvus-io/milvus-proto/go-api/v2/msgpb"
	"github.com/milvus-io/milvus-proto/go-api/v2/schemapb"
	"github.com/milvus-io/milvus/pkg/mq/msgstream"
	"github.com/milvus-io/milvus/pkg/util/funcutil"
	"github.com/sasha-s/go-deadlock"

	"github.com/zilliztech/milvus-cdc/core/api"
	"github.com/zilliztech/milvus-cdc/core/model"
	"github.com/zilliztech/milvus-cdc/core/pb"
	"github.com/zilliztech/milvus-cdc/core/util"
)

type c04Target struct {
	api.DefaultTargetAPI
	shards    int
	parts     map[string]int64
	vchannels []string // when set: the downstream vchannels as listed by the target
	missingCalls int   // the first N lookups answer "collection not found"
	byName    map[string]*model.CollectionInfo // when set: the downstream catalog by collection name
}

func (t *c04Target) info(name, db string) *model.CollectionInfo {
	if t.byName != nil {
		if ci, ok := t.byName[name]; ok {
			cp := *ci
			cp.Partitions = map[string]int64{}
			for k, v := range ci.Partitions {
				cp.Partitions[k] = v
			}
			return &cp
		}
	}
	ci := &model.CollectionInfo{DatabaseName: db, CollectionID: 900, CollectionName: name, Partitions: map[string]int64{}}
	for k, v := range t.parts {
		ci.Partitions[k] = v
	}
	if t.vchannels != nil {
		for _, v := range t.vchannels {
			ci.VChannels = append(ci.VChannels, v)
			ci.PChannels = append(ci.PChannels, funcutil.ToPhysicalChannel(v))
		}
		return ci
	}
	for s := 0; s < t.shards; s++ {
		p := "tgt-dml_" + string(rune('0'+s))
		ci.PChannels = append(ci.PChannels, p)
		ci.VChannels = append(ci.VChannels, p+"_900v"+string(rune('0'+s)))
	}
	return ci
}

func (t *c04Target) GetCollectionInfo(ctx context.Context, name, db string) (*model.CollectionInfo, error) {
	if t.missingCalls > 0 {
		t.missingCalls--
		return nil, errors.New("collection not found")
	}
	return t.info(name, db), nil
}
func (t *c04Target) GetPartitionInfo(ctx context.Context, name, db string) (*model.CollectionInfo, error) {
	return t.info(name, db), nil
}

type c04Meta struct {
	reports []string
}

func (m *c04Meta) UpdateTaskDropCollectionMsg(ctx context.Context, msg api.TaskDropCollectionMsg) (bool, error) {
	m.reports = append(m.reports, msg.Base.MsgID+"@"+msg.Base.ReadyChannels[0])
	return false, nil
}
func (m *c04Meta) GetTaskDropCollectionMsg(ctx context.Context, taskID, msgID string) ([]api.TaskDropCollectionMsg, error) {
	return nil, nil
}
func (m *c04Meta) UpdateTaskDropPartitionMsg(ctx context.Context, msg api.TaskDropPartitionMsg) (bool, error) {
	m.reports = append(m.reports, msg.Base.MsgID+"@"+msg.Base.ReadyChannels[0])
	return false, nil
}
func (m *c04Meta) GetTaskDropPartitionMsg(ctx context.Context, taskID, msgID string) ([]api.TaskDropPartitionMsg, error) {
	return nil, nil
}
func (m *c04Meta) RemoveTaskMsg(ctx context.Context, taskID, msgID string) error { return nil }

type c04World struct {
	mgr      *replicateChannelManager
	target   *c04Target
	meta     *c04Meta
	handlers map[string]*rHandlerEnv // by source pchannel
	shards   int
	pairs    [][4]string // (source vchannel, target vchannel, source pchannel, target pchannel) of every started channel
	real     bool        // the manager's own startReadChannel / initReplicateChannelHandler are in use (no stub)
	streams  *rStreams   // the fake stream creator of the manager (real plumbing)
	info     *pb.CollectionInfo
	db       *model.DatabaseInfo
	ctx      context.Context
}

var c04W *c04World

// c04NewRealWorld: as c04NewWorld, for check configurations WITHOUT the startReadChannel stub:
// handlers are created by the manager's own code over a fake stream creator.
func c04NewRealWorld(shards int) *c04World {
	w := c04NewWorld(shards)
	w.real = true
	w.streams = &rStreams{chans: map[string]chan *msgstream.MsgPack{}, seeks: map[string]*msgstream.MsgPosition{}}
	w.mgr.streamCreator = w.streams
	return w
}

func c04NewWorld(shards int) *c04World {
	w := &c04World{shards: shards, target: &c04Target{shards: shards, parts: map[string]int64{"_default": 1}}, meta: &c04Meta{}, handlers: map[string]*rHandlerEnv{}}
	retryOpts := util.GetRetryOptions(c13Retry())
	w.mgr = &replicateChannelManager{
		replicateID: rRID, targetClient: w.target, metaOp: &api.DefaultMetaOp{}, replicateMeta: w.meta,
		retryOptions: retryOpts, startReadRetryOptions: retryOpts, messageBufferSize: 16, ttInterval: 500,
		channelMapping:       util.NewChannelMapping(shards, shards),
		channelHandlerMap:    make(map[string]*replicateChannelHandler),
		channelForwardMap:    make(map[string]int),
		sourcePChannelKeyMap: make(map[int64]map[string]string),
		replicateCollections: make(map[int64]chan struct{}),
		replicatePartitions:  make(map[int64]map[int64]chan struct{}),
		apiEventChan:         make(chan *api.ReplicateAPIEvent, 16),
		forwardReplicateChannel: make(chan string),
		addCollectionLock:    &deadlock.RWMutex{},
		addCollectionCnt:     new(int),
		downstream:           "milvus",
	}
	w.info = &pb.CollectionInfo{ID: 100, Schema: &schemapb.CollectionSchema{Name: "coll"}, State: pb.CollectionState_CollectionCreated}
	for s := 0; s < shards; s++ {
		p := "src-dml_" + string(rune('0'+s))
		w.info.PhysicalChannelNames = append(w.info.PhysicalChannelNames, p)
		w.info.VirtualChannelNames = append(w.info.VirtualChannelNames, p+"_100v"+string(rune('0'+s)))
		w.info.StartPositions = append(w.info.StartPositions, &commonpb.KeyDataPair{Key: p, Data: []byte("start")})
	}
	w.db = &model.DatabaseInfo{ID: 1, Name: "db"}
	w.ctx = util.GetCtxWithTaskID(context.Background(), "task-7")
	w.mgr.SetCtx(context.Background()) // the server sets the replicate context before anything else
	c04W = w
	return w
}

// c04StartReadChannel stands in for (*replicateChannelManager).startReadChannel: one
// handler per source channel, the collection record registered on it (what
// initReplicateChannelHandler / AddCollection do with the records).
func c04StartReadChannel(r *replicateChannelManager, ctx context.Context, sourceInfo *model.SourceCollectionInfo, targetInfo *model.TargetCollectionInfo) (*replicateChannelHandler, error) {
	r.channelLock.Lock()
	defer r.channelLock.Unlock()
	w := c04W
	w.pairs = append(w.pairs, [4]string{sourceInfo.VChannel, targetInfo.VChannel, sourceInfo.PChannel, targetInfo.PChannel})
	key := sourceInfo.PChannel
	env, ok := w.handlers[key]
	if !ok {
		env = rNewHandler(sourceInfo.PChannel, targetInfo.PChannel)
		env.h.isDroppedCollection = r.isDroppedCollection
		env.h.isDroppedPartition = r.isDroppedPartition
		env.h.apiEventChan = r.apiEventChan
		env.h.targetClient = r.targetClient
		env.h.sourceSeekPosition = sourceInfo.SeekPosition
		w.handlers[key] = env
		env.h.startReadChannel() // real: channel clock + the handler's message loop goroutine
		ti, _ := GetTSManager().channelTS2.Get(FormatChanKey(rRID, targetInfo.PChannel))
		ti.lts = 0 // a fresh process (natively the clock table is process-wide)
		for len(ti.targetMsgChan) > 0 {
			<-ti.targetMsgChan
		}
	}
	r.channelHandlerMap[key] = env.h
	r.updateSourcePChannelMap(sourceInfo.CollectionID, sourceInfo.PChannel, key)
	// the real registration of the collection on the handler: records, stream, reader goroutine and
	// the synthetic drop message when the collection is found dropped
	env.h.AddCollection(util.GetTaskIDFromCtx(ctx), sourceInfo, targetInfo)
	return nil, nil
}

func (w *c04World) shard(s int) *rHandlerEnv {
	if w.real {
		return &rHandlerEnv{h: w.mgr.channelHandlerMap["src-dml_"+string(rune('0'+s))]}
	}
	return w.handlers["src-dml_"+string(rune('0'+s))]
}

func (w *c04World) vch(s int) string { return "src-dml_" + string(rune('0'+s)) + "_100v" + string(rune('0'+s)) }

// deliver hands one source pack of shard s to its handler (the real message loop body)
func (w *c04World) deliver(s int, ts uint64, m msgstream.TsMsg) {
	pos := rPos(w.vch(s), "m", ts)
	pack := &msgstream.MsgPack{BeginTs: ts, EndTs: ts, Msgs: []msgstream.TsMsg{m},
		StartPositions: []*msgpb.MsgPosition{pos}, EndPositions: []*msgpb.MsgPosition{pos}}
	if w.real {
		// through the stream the real AddCollection goroutine reads
		w.streams.chans[w.vch(s)] <- pack
		for i := 0; i < 10; i++ {
			vQuiesce() // natively: give the reader goroutine time (a not-yet-known collection costs it 500 ms)
		}
		return
	}
	w.shard(s).h.innerHandleReplicateMsg(false, api.GetReplicateMsg("src-dml_"+string(rune('0'+s)), "coll", 100, pack, "task-7"))
}

// drain lets the handlers process the packs the real code generated for them (synthetic drops)
// newWorld picks the world matching the check configuration (REAL=1: no stub)
func c04World4(shards int) *c04World {
	if vParam("REAL", 0) == 1 {
		return c04NewRealWorld(shards)
	}
	return c04NewWorld(shards)
}

func (w *c04World) drain() {
	for i := 0; i < 4; i++ {
		vQuiesce() // the handlers' own message loops consume the generated packs
	}
}

func (w *c04World) events(kind api.ReplicateAPIEventType) []*api.ReplicateAPIEvent {
	var out []*api.ReplicateAPIEvent
	n := len(w.mgr.apiEventChan)
	for i := 0; i < n; i++ {
		ev := <-w.mgr.apiEventChan
		w.mgr.apiEventChan <- ev
		if ev.EventType == kind {
			out = append(out, ev)
		}
	}
	return out
}

// emittedData: non-tick messages emitted on all downstream channels so far (drained)
func (w *c04World) emittedData() int {
	n := 0
	for s := 0; s < w.shards; s++ {
		ch := GetTSManager().GetTargetMsgChan(rRID, "tgt-dml_"+string(rune('0'+s)))
		for ch != nil && len(ch) > 0 {
			o := <-ch
			for _, m := range o.MsgPack.Msgs {
				if !rIsTick(m) && m.Type() != commonpb.MsgType_DropCollection && m.Type() != commonpb.MsgType_DropPartition {
					n++
				}
			}
		}
	}
	return n
}

func c04Partition(state pb.PartitionState) *pb.PartitionInfo {
	return &pb.PartitionInfo{PartitionID: 11, PartitionName: "p", CollectionId: 100, State: state, PartitionCreatedTimestamp: 50}
}

// VerifC04_DropCollection: S shards; the shards deliver their drop-collection message in
// any order, possibly twice, with symbolic times; trailing data follows.
func VerifC04_DropCollection() {
	S := vParam("S", 2)
	w := c04World4(S)
	vAssert(w.mgr.StartReadCollection(w.ctx, w.db, w.info, nil, nil) == nil, "C04.start-ok")
	vQuiesce()
	if w.real {
		vAssert(len(w.mgr.channelHandlerMap) == S, "C04.harness:one-handler-per-shard")
	} else {
		vAssert(len(w.handlers) == S, "C04.harness:one-handler-per-shard")
	}
	delivered := make([]bool, S)
	n := 0
	for step := 0; step < S+1 && n < S; step++ {
		s := vChoice("shard", S)
		ts := vU64("drop.ts")
		vAssume(vAnd(ts >= 100, ts < c03Lim))
		w.deliver(s, ts, rDropCollection(100, ts, rPos(w.vch(s), "drop", ts)))
		vQuiesce()
		if !delivered[s] {
			delivered[s] = true
			n++
		}
		evs := w.events(api.ReplicateDropCollection)
		if n < S {
			vAssert(len(evs) == 0, "C04.no-drop-request-before-every-shard-reached-the-drop")
		}
	}
	if n < S {
		vReach("end")
		return
	}
	evs := w.events(api.ReplicateDropCollection)
	vAssert(len(evs) == 1, "C04.exactly-one-drop-collection-request")
	if len(evs) == 1 {
		ev := evs[0]
		vAssert(ev.CollectionInfo.ID == 100 && ev.ReplicateParam.Database == "db" && ev.TaskID == "task-7", "C04.drop-request-names-the-right-object")
		vAssert(ev.MsgID == api.GetDropCollectionMsgID(100), "C04.drop-request-carries-the-message-id")
	}
	// nothing for the collection is emitted afterwards (a late duplicate drop, trailing data)
	w.emittedData()
	s := vChoice("trailingShard", S)
	w.deliver(s, 5000, rInsert(100, 0, "_default", w.vch(s), 5000, rPos(w.vch(s), "late", 5000), 1))
	w.deliver(s, 5001, rDropCollection(100, 5001, rPos(w.vch(s), "drop2", 5001)))
	vQuiesce()
	vAssert(w.emittedData() == 0, "C04.nothing-emitted-for-a-dropped-collection")
	vAssert(len(w.events(api.ReplicateDropCollection)) == 1, "C04.exactly-one-drop-collection-request")
	vReach("end")
}

// VerifC04_DropPartition: a partition registered on all shards (before or after a stop /
// restart of the collection on the same manager), dropped upstream: live (each shard
// delivers the drop message) or while CDC was not running (registered in dropped state:
// one synthetic drop per shard).
func VerifC04_DropPartition() {
	S := vParam("S", 2)
	w := c04World4(S)
	vAssert(w.mgr.StartReadCollection(w.ctx, w.db, w.info, nil, nil) == nil, "C04.start-ok")
	vQuiesce()
	restart := vBool("stopAndRestartFirst")
	offline := vBool("droppedWhileNotRunning")
	targetHas := vBool("target.hasPartition")
	if targetHas {
		w.target.parts["p"] = 911
		for s := 0; s < S; s++ {
			w.shard(s).h.collectionRecords[100].PartitionInfo["p"] = 911
		}
	}
	if restart {
		// the task is paused and resumed while another task keeps the manager alive
		vAssert(w.mgr.AddPartition(w.ctx, w.db, w.info, c04Partition(pb.PartitionState_PartitionCreated)) == nil, "C04.add-partition-ok")
		vQuiesce()
		if !targetHas {
			vAssert(len(w.events(api.ReplicateCreatePartition)) == 1, "C04.unknown-partition-is-created-downstream-first")
			for len(w.mgr.apiEventChan) > 0 {
				<-w.mgr.apiEventChan
			}
			w.target.parts["p"] = 911 // the downstream applied the create-partition request
			targetHas = true
		}
		vAssert(w.mgr.StopReadCollection(w.ctx, w.info) == nil, "C04.stop-ok")
		vAssert(!vBusy(), "C04.stop-leaves-no-spinning-barrier-goroutine")
		vAssert(len(w.events(api.ReplicateDropPartition)) == 0 && len(w.events(api.ReplicateDropCollection)) == 0, "C04.stop-produces-no-drop-request")
		vAssert(w.mgr.StartReadCollection(w.ctx, w.db, w.info, nil, nil) == nil, "C04.restart-ok")
		vQuiesce()
		if targetHas {
			for s := 0; s < S; s++ {
				w.shard(s).h.collectionRecords[100].PartitionInfo["p"] = 911
			}
		}
	}
	if offline {
		vAssume(targetHas) // it was replicated before, so the downstream has it
		seek := vU64("seek.ts")
		vAssume(vAnd(seek >= 100, seek < c03Lim))
		for s := 0; s < S; s++ {
			w.shard(s).h.sourceSeekPosition = rPos("src-dml_"+string(rune('0'+s)), "seek", seek)
		}
		vAssert(w.mgr.AddPartition(w.ctx, w.db, w.info, c04Partition(pb.PartitionState_PartitionDropped)) == nil, "C04.add-dropped-partition-ok")
		w.drain()
	} else {
		vAssert(w.mgr.AddPartition(w.ctx, w.db, w.info, c04Partition(pb.PartitionState_PartitionCreated)) == nil, "C04.add-partition-ok")
		vQuiesce()
		if !targetHas {
			vAssert(len(w.events(api.ReplicateCreatePartition)) == 1, "C04.unknown-partition-is-created-downstream-first")
			w.target.parts["p"] = 911 // the downstream applied the create-partition request
		}
		n := 0
		reverse := vBool("reverseOrder")
		for s := 0; s < S; s++ {
			sh := s
			if reverse {
				sh = S - 1 - s
			}
			ts := vU64("drop.ts")
			vAssume(vAnd(ts >= 100, ts < c03Lim))
			w.deliver(sh, ts, rDropPartition(100, 11, "p", ts, rPos(w.vch(sh), "dropp", ts)))
			vQuiesce()
			n++
			if n < S {
				vAssert(len(w.events(api.ReplicateDropPartition)) == 0, "C04.no-drop-request-before-every-shard-reached-the-drop")
			}
		}
	}
	evs := w.events(api.ReplicateDropPartition)
	vAssert(len(evs) == 1, "C04.exactly-one-drop-partition-request")
	if len(evs) == 1 {
		ev := evs[0]
		vAssert(ev.CollectionInfo.ID == 100 && ev.PartitionInfo.PartitionID == 11 && ev.PartitionInfo.PartitionName == "p" && ev.ReplicateParam.Database == "db" && ev.TaskID == "task-7",
			"C04.drop-request-names-the-right-object")
		vAssert(ev.MsgID == api.GetDropPartitionMsgID(100, 11), "C04.drop-request-carries-the-message-id")
	}
	vReach("end")
}

// VerifC04_Stop: stopping a collection (pause / delete of its task) at any point - before
// any shard, after some shards delivered the drop message - never produces a drop request
// and leaves no spinning barrier goroutine.
func VerifC04_Stop() {
	S := vParam("S", 2)
	w := c04World4(S)
	vAssert(w.mgr.StartReadCollection(w.ctx, w.db, w.info, nil, nil) == nil, "C04.start-ok")
	vQuiesce()
	vAssert(w.mgr.AddPartition(w.ctx, w.db, w.info, c04Partition(pb.PartitionState_PartitionCreated)) == nil, "C04.add-partition-ok")
	vQuiesce()
	k := vChoice("shardsThatDeliveredTheDrop", S) // 0..S-1: not all
	for s := 0; s < k; s++ {
		w.deliver(s, uint64(100+s), rDropCollection(100, uint64(100+s), rPos(w.vch(s), "drop", uint64(100+s))))
	}
	vQuiesce()
	vAssert(w.mgr.StopReadCollection(w.ctx, w.info) == nil, "C04.stop-ok")
	vQuiesce()
	vAssert(len(w.events(api.ReplicateDropCollection)) == 0 && len(w.events(api.ReplicateDropPartition)) == 0, "C04.stop-produces-no-drop-request")
	vAssert(!vBusy(), "C04.stop-leaves-no-spinning-barrier-goroutine")
	vAssert(len(w.events(api.ReplicateDropCollection)) == 0 && len(w.events(api.ReplicateDropPartition)) == 0, "C04.stop-produces-no-drop-request")
	vReach("end")
}

// VerifC04_DropNotDeliveredBeforeStop: every shard has read the drop-collection message but
// the request could not be handed over yet (the event queue shared by the target's tasks is
// full) when the task is stopped: no drop request is produced by the stop; when the task is
// started again on the same manager the collection (now dropped upstream) is taken up again
// and the drop is delivered exactly once.
func VerifC04_DropNotDeliveredBeforeStop() {
	S := vParam("S", 2)
	w := c04World4(S)
	vAssert(w.mgr.StartReadCollection(w.ctx, w.db, w.info, nil, nil) == nil, "C04.start-ok")
	vQuiesce()
	for len(w.mgr.apiEventChan) < cap(w.mgr.apiEventChan) {
		w.mgr.apiEventChan <- &api.ReplicateAPIEvent{EventType: api.ReplicateCreatePartition, TaskID: "other-task"}
	}
	for s := 0; s < S; s++ {
		w.deliver(s, uint64(100+s), rDropCollection(100, uint64(100+s), rPos(w.vch(s), "drop", uint64(100+s))))
	}
	vQuiesce()
	vAssert(w.mgr.StopReadCollection(w.ctx, w.info) == nil, "C04.stop-ok")
	vQuiesce()
	// the server works through the queue: no drop request is in it
	for len(w.mgr.apiEventChan) > 0 {
		ev := <-w.mgr.apiEventChan
		vAssert(ev.EventType != api.ReplicateDropCollection, "C04.stop-produces-no-drop-request")
	}
	// restart: the catalog now shows the collection as dropped, the downstream still has it
	w.info.State = pb.CollectionState_CollectionDropped
	seek := vU64("seek.ts")
	vAssume(vAnd(seek >= 200, seek < c03Lim))
	var seeks []*msgpb.MsgPosition
	for s := 0; s < S; s++ {
		seeks = append(seeks, rPos("src-dml_"+string(rune('0'+s)), "seek", seek))
		w.shard(s).h.sourceSeekPosition = rPos("src-dml_"+string(rune('0'+s)), "seek", seek)
	}
	vAssert(w.mgr.StartReadCollection(w.ctx, w.db, w.info, seeks, nil) == nil, "C04.restart-ok")
	w.drain()
	evs := w.events(api.ReplicateDropCollection)
	vAssert(len(evs) == 1, "C04.drop-read-before-the-stop-is-delivered-once-after-restart")
	vReach("end")
}

// VerifC02_StartReadPairing (a C02 entry living next to the world it needs): the real
// StartReadCollection pairs the collection's source vchannels with the downstream
// vchannels one-to-one, i-th smallest with i-th smallest, and derives the physical
// channels from the paired vchannels - also when one physical channel name is a prefix of
// another (dml_1 / dml_12) and whatever the order in which the catalog lists them.
func VerifC02_StartReadPairing() {
	w := c04NewWorld(2)
	src := []string{"src-dml_1_100v0", "src-dml_12_100v1"}
	tgt := []string{"tgt-dml_1_900v0", "tgt-dml_12_900v1"}
	if vBool("source.listedInReverse") {
		src[0], src[1] = src[1], src[0]
	}
	if vBool("target.listedInReverse") {
		tgt[0], tgt[1] = tgt[1], tgt[0]
	}
	w.info.VirtualChannelNames = src
	w.info.PhysicalChannelNames = []string{funcutilToP(src[0]), funcutilToP(src[1])}
	w.target.vchannels = tgt
	vAssert(w.mgr.StartReadCollection(w.ctx, w.db, w.info, nil, nil) == nil, "C02.start-ok")
	vQuiesce()
	vAssert(len(w.pairs) == 2, "C02.every-shard-is-started-once")
	wantS := []string{"src-dml_12_100v1", "src-dml_1_100v0"} // sorted ('2' < '_')
	wantT := []string{"tgt-dml_12_900v1", "tgt-dml_1_900v0"}
	for i, p := range w.pairs {
		if i >= 2 {
			break
		}
		vAssert(p[0] == wantS[i] && p[1] == wantT[i], "C02.i-th-smallest-source-vchannel-is-paired-with-i-th-smallest-target-vchannel")
		vAssert(p[2] == funcutilToP(p[0]) && p[3] == funcutilToP(p[1]), "C02.physical-channels-are-those-of-the-paired-vchannels")
	}
	vReach("end")
}

func funcutilToP(v string) string { return funcutil.ToPhysicalChannel(v) }

// VerifC20_ReaderEvents (the reader-side clause of C20): the create-collection,
// create-partition, drop-partition and drop-collection requests built by the channel
// manager carry the source object's identity, are marked as replicated and are stamped
// with the object's create time / the drop message time.
func VerifC20_ReaderEvents() {
	S := 2
	w := c04NewWorld(S)
	ct := vU64("collection.createTime")
	pct := vU64("partition.createTime")
	vAssume(vAnd(vAnd(ct >= 1, ct < c03Lim), vAnd(pct >= 1, pct < c03Lim)))
	w.info.CreateTime = ct
	w.target.missingCalls = 1 // the downstream does not have the collection yet: it is created first
	vAssert(w.mgr.StartReadCollection(w.ctx, w.db, w.info, nil, nil) == nil, "C20.start-ok")
	vQuiesce()
	evs := w.events(api.ReplicateCreateCollection)
	vAssert(len(evs) == 1, "C20.exactly-one-create-collection-request")
	if len(evs) == 1 {
		ev := evs[0]
		vAssert(ev.CollectionInfo == w.info && ev.TaskID == "task-7" && ev.ReplicateParam.Database == "db", "C20.create-collection-request-carries-the-source-collection")
		vAssert(ev.ReplicateInfo != nil && ev.ReplicateInfo.IsReplicate && ev.ReplicateInfo.MsgTimestamp == ct, "C20.create-collection-request-is-stamped-with-the-create-time")
	}
	part := c04Partition(pb.PartitionState_PartitionCreated)
	part.PartitionCreatedTimestamp = pct
	vAssert(w.mgr.AddPartition(w.ctx, w.db, w.info, part) == nil, "C20.add-partition-ok")
	vQuiesce()
	evs = w.events(api.ReplicateCreatePartition)
	vAssert(len(evs) == 1, "C20.exactly-one-create-partition-request")
	if len(evs) == 1 {
		ev := evs[0]
		vAssert(ev.CollectionInfo == w.info && ev.PartitionInfo == part && ev.TaskID == "task-7" && ev.ReplicateParam.Database == "db", "C20.create-partition-request-carries-the-source-objects")
		vAssert(ev.ReplicateInfo != nil && ev.ReplicateInfo.IsReplicate && ev.ReplicateInfo.MsgTimestamp == pct, "C20.create-partition-request-is-stamped-with-the-partition-create-time")
	}
	w.target.parts["p"] = 911
	// partition drop on both shards, then collection drop on both shards
	t1, t2 := vU64("dropPartition.ts"), vU64("dropCollection.ts")
	vAssume(vAnd(vAnd(t1 >= 100, t1 < t2), t2 < c03Lim))
	for s := 0; s < S; s++ {
		w.deliver(s, t1, rDropPartition(100, 11, "p", t1, rPos(w.vch(s), "dropp", t1)))
		vQuiesce()
	}
	evs = w.events(api.ReplicateDropPartition)
	vAssert(len(evs) == 1, "C20.exactly-one-drop-partition-request")
	if len(evs) == 1 {
		ev := evs[0]
		vAssert(ev.CollectionInfo == w.info && ev.PartitionInfo == part && ev.ReplicateParam.Database == "db", "C20.drop-partition-request-carries-the-source-objects")
		vAssert(ev.ReplicateInfo != nil && ev.ReplicateInfo.IsReplicate && ev.ReplicateInfo.MsgTimestamp >= t1, "C20.drop-partition-request-is-stamped-not-before-the-drop-message")
	}
	for s := 0; s < S; s++ {
		w.deliver(s, t2, rDropCollection(100, t2, rPos(w.vch(s), "dropc", t2)))
		vQuiesce()
	}
	evs = w.events(api.ReplicateDropCollection)
	vAssert(len(evs) == 1, "C20.exactly-one-drop-collection-request")
	if len(evs) == 1 {
		ev := evs[0]
		vAssert(ev.CollectionInfo == w.info && ev.ReplicateParam.Database == "db", "C20.drop-collection-request-carries-the-source-collection")
		vAssert(ev.ReplicateInfo != nil && ev.ReplicateInfo.IsReplicate && ev.ReplicateInfo.MsgTimestamp >= t2, "C20.drop-collection-request-is-stamped-not-before-the-drop-message")
	}
	vReach("end")
}

// ---- partition registered while the stream registration of some shards is still pending ----

var (
	c04HoldShard string        // source pchannel whose AddCollection is held
	c04HoldGate  chan struct{} // closed to let it go on
)

// hook before (*replicateChannelHandler).AddCollection
func c04HookBeforeAddCollection(h *replicateChannelHandler, taskID string, sourceInfo *model.SourceCollectionInfo, targetInfo *model.TargetCollectionInfo) {
	if c04HoldGate != nil && sourceInfo.PChannel == c04HoldShard {
		<-c04HoldGate
	}
}

// VerifC04_PartitionRegisteredWhileShardsPending (real plumbing only): the reader lists the
// collection and right after it its partition; the stream registration of one shard (a
// goroutine that opens the stream) has not finished yet when the partition is registered.
// The partition's drop must still wait for every shard and be issued exactly once.
func VerifC04_PartitionRegisteredWhileShardsPending() {
	S := 2
	w := c04NewRealWorld(S)
	w.target.parts["p"] = 911
	c04HoldShard, c04HoldGate = "src-dml_1", make(chan struct{})
	vAssert(w.mgr.StartReadCollection(w.ctx, w.db, w.info, nil, nil) == nil, "C04.start-ok")
	vQuiesce() // shard 0 is registered, shard 1 is still opening its stream
	errAdd := w.mgr.AddPartition(w.ctx, w.db, w.info, c04Partition(pb.PartitionState_PartitionCreated))
	close(c04HoldGate)
	vQuiesce()
	c04HoldGate = nil
	if errAdd != nil {
		// refusing (the reader reports the error and the task is paused) is a safe answer
		vReach("end")
		return
	}
	// the partition is dropped upstream: shard 0 reads the drop message first
	w.deliver(0, 500, rDropPartition(100, 11, "p", 500, rPos(w.vch(0), "dropp", 500)))
	vQuiesce()
	vAssert(len(w.events(api.ReplicateDropPartition)) == 0, "C04.no-drop-request-before-every-shard-reached-the-drop")
	w.deliver(1, 501, rDropPartition(100, 11, "p", 501, rPos(w.vch(1), "dropp", 501)))
	vQuiesce()
	vAssert(len(w.events(api.ReplicateDropPartition)) == 1, "C04.exactly-one-drop-partition-request")
	vAssert(len(w.events(api.ReplicateError)) == 0, "C04.no-error-for-a-partition-drop-read-on-every-shard")
	vReach("end")
}

// VerifC02_RoutingRealPlumbing (a C02 entry on the real per-channel plumbing): three
// one-shard collections - A: src-dml_0 -> tgt-dml_0, C: src-dml_1 -> tgt-dml_1 and
// B: src-dml_0 -> tgt-dml_1 (it shares A's source channel but its shard lives on the
// downstream channel C's handler hosts). Packs of all three are read from their streams;
// every emitted pack must arrive on the output stream of the downstream channel that hosts
// its shard (B's through the real forwardMsg hand-over), labelled with its own collection,
// carrying the downstream collection id and shard name.
func VerifC02_RoutingRealPlumbing() {
	w := c04NewRealWorld(2)
	type coll struct {
		id, tid      int64
		name         string
		srcP, tgtP   string
		srcV, tgtV   string
	}
	cs := []coll{
		{100, 900, "A", "src-dml_0", "tgt-dml_0", "src-dml_0_100v0", "tgt-dml_0_900v0"},
		{300, 930, "C", "src-dml_1", "tgt-dml_1", "src-dml_1_300v0", "tgt-dml_1_930v0"},
		{200, 920, "B", "src-dml_0", "tgt-dml_1", "src-dml_0_200v0", "tgt-dml_1_920v0"},
	}
	if vBool("startBBeforeC") {
		cs[1], cs[2] = cs[2], cs[1]
	}
	for _, c := range cs {
		info := &pb.CollectionInfo{ID: c.id, Schema: &schemapb.CollectionSchema{Name: c.name}, State: pb.CollectionState_CollectionCreated,
			PhysicalChannelNames: []string{c.srcP}, VirtualChannelNames: []string{c.srcV},
			StartPositions: []*commonpb.KeyDataPair{{Key: c.srcP, Data: []byte("start")}}}
		w.target.byName = map[string]*model.CollectionInfo{}
		for _, x := range cs {
			w.target.byName[x.name] = &model.CollectionInfo{DatabaseName: "db", CollectionID: x.tid, CollectionName: x.name,
				Partitions: map[string]int64{"_default": 1}, PChannels: []string{x.tgtP}, VChannels: []string{x.tgtV}}
		}
		vAssert(w.mgr.StartReadCollection(w.ctx, w.db, info, nil, nil) == nil, "C02.start-ok")
		vQuiesce()
	}
	for i := 0; i < 3; i++ {
		vQuiesce()
	}
	// one insert per collection, at symbolic times
	for _, c := range cs {
		ts := vU64("ts." + c.name)
		vAssume(vAnd(ts >= 100, ts < c03Lim))
		pos := rPos(c.srcV, "m-"+c.name, ts)
		ins := rInsert(c.id, 0, "_default", c.srcV, ts, pos, 1)
		ins.CollectionName = c.name
		st := w.streams.chans[c.srcV]
		vAssert(st != nil, "C02.stream-of-every-shard-is-opened")
		if st == nil {
			return
		}
		st <- &msgstream.MsgPack{BeginTs: ts, EndTs: ts, Msgs: []msgstream.TsMsg{ins}, StartPositions: []*msgpb.MsgPosition{pos}, EndPositions: []*msgpb.MsgPosition{pos}}
		for i := 0; i < 10; i++ {
			vQuiesce()
		}
	}
	vAssert(len(w.events(api.ReplicateError)) == 0, "C02.no-error")
	seen := map[string]int{}
	for _, p := range []string{"tgt-dml_0", "tgt-dml_1"} {
		ch := w.mgr.GetMsgChan(p)
		for ch != nil && len(ch) > 0 {
			o := <-ch
			for _, m := range o.MsgPack.Msgs {
				ins, ok := m.(*msgstream.InsertMsg)
				if !ok {
					continue
				}
				var c *coll
				for i := range cs {
					if cs[i].name == o.CollectionName {
						c = &cs[i]
					}
				}
				vAssert(c != nil && o.CollectionID == c.id, "C02.emitted-pack-labelled-with-its-own-collection")
				if c == nil {
					continue
				}
				seen[c.name]++
				vAssert(c.tgtP == p, "C02.pack-arrives-on-the-downstream-channel-hosting-its-shard")
				vAssert(ins.CollectionID == c.tid && ins.ShardName == c.tgtV, "C02.message-re-addressed-to-the-downstream-collection-and-shard")
			}
		}
	}
	for _, c := range cs {
		vAssert(seen[c.name] == 1, "C02.every-collection's-insert-is-emitted-once")
	}
	vReach("end")
}
