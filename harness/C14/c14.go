//go:build verif

package msgpacker

// C14 harness: the write batcher delivers every buffered pack exactly once, in
// order. Real code: server/msgpacker/packer.go, pack_checker.go (all of it).

import (
	"errors"
	"time"

	"github.com/milvus-io/milvus/pkg/mq/msgstream"

	"github.com/zilliztech/milvus-cdc/core/api"
)

// c14Msg is a TsMsg whose Size() is a symbolic value (proto.Size of the real
// message is reflection code outside the encoder's reach; the batcher only
// reads Size()).
type c14Msg struct {
	*msgstream.TimeTickMsg
	size int
}

func (m *c14Msg) Size() int { return m.size }

type c14Sink struct {
	got      []*api.ReplicateMsg
	calls    int
	lastErr  error
	failNext bool
}

func (s *c14Sink) handle(msgs []*api.ReplicateMsg) error {
	s.calls++
	s.got = append(s.got, msgs...)
	if vBool("callbackFails") {
		s.lastErr = errors.New("downstream write failed")
		return s.lastErr
	}
	s.lastErr = nil
	return nil
}

func c14Config(tag string, positive bool) PackerConfig {
	c := PackerConfig{
		TimerInterval: vInt(tag + ".TimerInterval"),
		MaxCount:      vInt(tag + ".MaxCount"),
		MaxMsgSize:    vInt(tag + ".MaxMsgSize"),
		MemoryLimit:   vInt(tag + ".MemoryLimit"),
	}
	lim := 1 << 20
	vAssume(vAnd(c.TimerInterval >= -lim, c.TimerInterval <= lim))
	vAssume(vAnd(c.MaxCount >= -lim, c.MaxCount <= lim))
	vAssume(vAnd(c.MaxMsgSize >= -lim, c.MaxMsgSize <= lim))
	vAssume(vAnd(c.MemoryLimit >= -lim, c.MemoryLimit <= lim))
	if positive {
		// explicit (non-default) configuration; the <=0 substitution is covered by VerifC14_New
		vAssume(vAnd(vAnd(c.TimerInterval > 0, c.MaxCount > 0), vAnd(c.MaxMsgSize > 0, c.MemoryLimit > 0)))
	}
	return c
}

func c14Pack(nMsgs int) *api.ReplicateMsg {
	pack := &msgstream.MsgPack{}
	for i := 0; i < nMsgs; i++ {
		sz := vInt("msgSize")
		vAssume(vAnd(sz >= 0, sz < 1<<31))
		pack.Msgs = append(pack.Msgs, &c14Msg{size: sz})
	}
	return &api.ReplicateMsg{MsgPack: pack}
}

func c14SameSeq(a, b []*api.ReplicateMsg) bool {
	if len(a) != len(b) {
		return false
	}
	for i := range a {
		if a[i] != b[i] {
			return false
		}
	}
	return true
}

// VerifC14_Seq: two batchers sharing the global memory budget, K Receive calls
// interleaved between them (which batcher: forked), pack sizes / thresholds /
// clock / callback failures symbolic; final ClearMsgs on both.
func VerifC14_Seq() {
	K := vParam("K", 3)
	M := vParam("M", 1)
	memoryCheck = &MemoryProtector{} // fresh process
	packers := []*Packer{NewPacker(c14Config("cfg0", true)), NewPacker(c14Config("cfg1", true))}
	sinks := []*c14Sink{{}, {}}
	arrived := [][]*api.ReplicateMsg{nil, nil}
	vAssert(packers[0].memoryProtector == packers[1].memoryProtector, "C14.shared-global-protector")

	for k := 0; k < K; k++ {
		w := vChoice("which", 2)
		n := 1
		if M > 1 {
			n = vChoice("nmsgs", M+1)
		}
		msg := c14Pack(n)
		arrived[w] = append(arrived[w], msg)
		before := sinks[w].calls
		err := packers[w].Receive(msg, sinks[w].handle)
		if sinks[w].calls > before {
			// a flush happened: exactly one callback, its error is what the caller sees
			vAssert(sinks[w].calls == before+1, "C14.one-callback-per-flush")
			vAssert(err == sinks[w].lastErr, "C14.callback-error-returned")
			vAssert(len(packers[w].msgs) == 0, "C14.buffer-empty-after-flush")
			vAssert(c14SameSeq(sinks[w].got, arrived[w]), "C14.flushed-prefix-is-arrival-order")
		} else {
			vAssert(err == nil, "C14.no-error-without-flush")
			// delivered ++ buffered == arrived
			all := append(append([]*api.ReplicateMsg{}, sinks[w].got...), packers[w].msgs...)
			vAssert(c14SameSeq(all, arrived[w]), "C14.nothing-lost-while-buffering")
		}
		// the other batcher is untouched
		o := 1 - w
		allO := append(append([]*api.ReplicateMsg{}, sinks[o].got...), packers[o].msgs...)
		vAssert(c14SameSeq(allO, arrived[o]), "C14.other-batcher-untouched")
		if len(packers[0].msgs) == 0 && len(packers[1].msgs) == 0 {
			vAssert(memoryCheck.current == 0, "C14.global-counter-zero-when-empty")
		}
		vAssert(memoryCheck.current == packers[0].currentMsgPackSize+packers[1].currentMsgPackSize, "C14.global-counter-is-sum-of-buffers")
	}
	// channel shutdown: the final flush (server/cdc_impl.go deferred ClearMsgs)
	for w := 0; w < 2; w++ {
		before := sinks[w].calls
		err := packers[w].ClearMsgs(sinks[w].handle)
		vAssert(sinks[w].calls == before+1, "C14.clear-calls-callback-once")
		vAssert(err == sinks[w].lastErr, "C14.clear-returns-callback-error")
		vAssert(c14SameSeq(sinks[w].got, arrived[w]), "C14.every-pack-exactly-once-in-order")
		vAssert(len(packers[w].msgs) == 0, "C14.buffer-empty-after-clear")
	}
	vAssert(memoryCheck.current == 0, "C14.global-counter-zero-at-end")
	vReach("end")
}

// VerifC14_New: the constructor substitutes defaults exactly for non-positive
// fields and the first constructed batcher fixes the global memory limit.
func VerifC14_New() {
	memoryCheck = &MemoryProtector{}
	cfg := c14Config("cfg", false)
	p := NewPacker(cfg)
	wantCount, wantSize, wantMem, wantTimer := cfg.MaxCount, cfg.MaxMsgSize, cfg.MemoryLimit, cfg.TimerInterval
	if wantCount <= 0 {
		wantCount = DefaultMaxCount
	}
	if wantSize <= 0 {
		wantSize = DefaultMaxMsgSize
	}
	if wantMem <= 0 {
		wantMem = DefaultMemoryLimit
	}
	if wantTimer <= 0 {
		wantTimer = DefaultTimerInterval
	}
	vAssert(p.maxMsgSize == wantSize*1024, "C14.new-max-msg-size")
	vAssert(memoryCheck.max == wantMem*1024, "C14.new-memory-limit")
	vAssert(p.memoryProtector == memoryCheck, "C14.new-uses-global-protector")
	vAssert(len(p.checkers) == 2, "C14.new-two-checkers")
	tc, ok1 := p.checkers[0].(*TimerChecker)
	cc, ok2 := p.checkers[1].(*MsgCountChecker)
	vAssert(ok1 && ok2, "C14.new-checker-kinds")
	vAssert(int64(tc.interval) == int64(wantTimer)*1000000, "C14.new-timer-interval")
	vAssert(vAnd(cc.maxCount == wantCount, cc.count == 0), "C14.new-count-threshold")
	vAssert(vAnd(len(p.msgs) == 0, p.currentMsgPackSize == 0), "C14.new-empty")
	// a second batcher never changes the global limit
	q := NewPacker(c14Config("cfg2", true))
	vAssert(vAnd(q.memoryProtector == memoryCheck, memoryCheck.max == wantMem*1024), "C14.second-keeps-global-limit")
	vReach("end")
}

// VerifC14_Step: inductive step. Two batchers in an ARBITRARY state satisfying
// the representation invariant (global counter == sum of the buffered sizes,
// buffered sizes >= 0, count in range), one Receive with a symbolic pack on one
// of them: nothing is lost, duplicated or reordered, the other batcher is
// untouched and the invariant holds again.
func VerifC14_Step() {
	B := vParam("B", 2)
	mkState := func(tag string) (*Packer, []*api.ReplicateMsg) {
		n := vChoice(tag+".buffered", B+1)
		p := &Packer{memoryProtector: memoryCheck}
		var buf []*api.ReplicateMsg
		for i := 0; i < n; i++ {
			buf = append(buf, c14Pack(1))
		}
		p.msgs = append(make([]*api.ReplicateMsg, 0), buf...)
		p.currentMsgPackSize = vInt(tag + ".currentSize")
		vAssume(vAnd(p.currentMsgPackSize >= 0, p.currentMsgPackSize < 1<<40))
		if n == 0 {
			vAssume(p.currentMsgPackSize == 0)
		}
		p.maxMsgSize = vInt(tag + ".maxMsgSize")
		vAssume(vAnd(p.maxMsgSize > 0, p.maxMsgSize <= 1<<30))
		tcI := vI64(tag + ".interval")
		vAssume(vAnd(tcI > 0, tcI < 1<<50))
		mc := vInt(tag + ".maxCount")
		cnt := vInt(tag + ".count")
		vAssume(vAnd(mc > 0, vAnd(cnt >= 0, cnt < mc)))
		p.checkers = []PackerChecker{NewTimerChecker(0), &MsgCountChecker{count: cnt, maxCount: mc}}
		p.checkers[0].(*TimerChecker).interval = c14Duration(tcI)
		return p, buf
	}
	memoryCheck = &MemoryProtector{}
	memoryCheck.max = vInt("global.max")
	vAssume(vAnd(memoryCheck.max > 0, memoryCheck.max <= 1<<40))
	p0, buf0 := mkState("p0")
	p1, buf1 := mkState("p1")
	memoryCheck.current = p0.currentMsgPackSize + p1.currentMsgPackSize
	sink := &c14Sink{}
	msg := c14Pack(1)
	err := p0.Receive(msg, sink.handle)
	want := append(append([]*api.ReplicateMsg{}, buf0...), msg)
	if sink.calls > 0 {
		vAssert(sink.calls == 1, "C14.one-callback-per-flush")
		vAssert(err == sink.lastErr, "C14.callback-error-returned")
		vAssert(c14SameSeq(sink.got, want), "C14.flush-delivers-buffer-then-new-in-order")
		vAssert(vAnd(len(p0.msgs) == 0, p0.currentMsgPackSize == 0), "C14.buffer-empty-after-flush")
		vAssert(p0.checkers[1].(*MsgCountChecker).count == 0, "C14.count-reset-after-flush")
	} else {
		vAssert(err == nil, "C14.no-error-without-flush")
		vAssert(c14SameSeq(p0.msgs, want), "C14.buffer-appended-in-order")
	}
	vAssert(c14SameSeq(p1.msgs, buf1), "C14.other-batcher-untouched")
	vAssert(memoryCheck.current == p0.currentMsgPackSize+p1.currentMsgPackSize, "C14.global-counter-is-sum-of-buffers")
	vAssert(p0.currentMsgPackSize >= 0, "C14.buffered-size-nonneg")
	c2 := p0.checkers[1].(*MsgCountChecker)
	vAssert(vAnd(c2.count >= 0, c2.count < c2.maxCount), "C14.count-in-range")
	if len(p0.msgs) == 0 && len(p1.msgs) == 0 {
		vAssert(memoryCheck.current == 0, "C14.global-counter-zero-when-empty")
	}
	vReach("end")
}

func c14Duration(ns int64) time.Duration { return time.Duration(ns) }
