//go:build verif

package reader

// Shared fakes and builders for the core/reader harnesses (C01-C04, C06).

import (
	"context"
	"errors"
	"io"
	"math"
	"sync"
	"time"

	"github.com/milvus-io/milvus-proto/go-api/v2/commonpb"
	"github.com/milvus-io/milvus-proto/go-api/v2/msgpb"
	"github.com/milvus-io/milvus/pkg/mq/msgstream"
	"github.com/sasha-s/go-deadlock"

	"github.com/zilliztech/milvus-cdc/core/api"
	"github.com/zilliztech/milvus-cdc/core/log"
	"github.com/zilliztech/milvus-cdc/core/model"
)

// natively: go-deadlock's lock-order diagnostic exits the test process on false positives (the
// pinned goid library returns bogus goroutine ids under this Go release); the locks themselves
// and the lock-timeout detection stay as they are
func init() {
	if !vSymbolic() {
		deadlock.Opts.DisableLockOrderDetection = true
	}
}

const (
	rRID  = "rid"
	rSrcP = "src-dml_0"
	rTgtP = "tgt-dml_0"
)

// rTarget is a fake api.TargetAPI: the downstream's partition table is a map the
// harness fills; lookups may fail on a free boolean when failing is enabled.
type rTarget struct {
	api.DefaultTargetAPI
	parts    map[string]int64
	canFail  bool
	lookups  int
	collInfo *model.CollectionInfo
}

var errTarget = errors.New("target lookup failed")

func (t *rTarget) GetPartitionInfo(ctx context.Context, collectionName, databaseName string) (*model.CollectionInfo, error) {
	t.lookups++
	if t.canFail && vBool("target.lookupFails") {
		return nil, errTarget
	}
	cp := map[string]int64{}
	for k, v := range t.parts {
		cp[k] = v
	}
	return &model.CollectionInfo{CollectionName: collectionName, Partitions: cp}, nil
}

func (t *rTarget) GetCollectionInfo(ctx context.Context, collectionName, databaseName string) (*model.CollectionInfo, error) {
	if t.collInfo == nil {
		return nil, errTarget
	}
	return t.collInfo, nil
}

type rForward struct {
	channel string
	msg     *api.ReplicateMsg
}

// rStreams is a fake StreamCreator: one buffered channel per source vchannel, the seek
// position it was opened with is recorded.
type rStreams struct {
	chans map[string]chan *msgstream.MsgPack
	seeks map[string]*msgstream.MsgPosition
	opens map[string]int // how many times a stream of the vchannel was opened
	mu    sync.Mutex
}

func (s *rStreams) opened(vchannel string) int {
	s.mu.Lock()
	defer s.mu.Unlock()
	return s.opens[vchannel]
}

func (s *rStreams) GetStreamChan(ctx context.Context, vchannel string, seek *msgstream.MsgPosition) (<-chan *msgstream.MsgPack, io.Closer, error) {
	ch := make(chan *msgstream.MsgPack, 8)
	s.mu.Lock()
	defer s.mu.Unlock()
	s.chans[vchannel] = ch
	s.seeks[vchannel] = seek
	if s.opens == nil {
		s.opens = map[string]int{}
	}
	s.opens[vchannel]++
	n := 0
	return ch, rNopCloser{&n}, nil
}
func (s *rStreams) CheckConnection(ctx context.Context, vchannel string, seek *msgstream.MsgPosition) error {
	return nil
}
func (s *rStreams) GetChannelLatestMsgID(ctx context.Context, channelName string) ([]byte, error) {
	return []byte("latest"), nil
}

type rHandlerEnv struct {
	streams    *rStreams
	h          *replicateChannelHandler
	target     *rTarget
	droppedC   map[int64]bool
	droppedP   map[int64]bool
	forwarded  []rForward
	eventChan  chan *api.ReplicateAPIEvent
}

type rNopCloser struct{ closed *int }

func (c rNopCloser) Close() error { *c.closed++; return nil }

var _ io.Closer = rNopCloser{}

// rNewHandler builds a replicateChannelHandler by struct literal (what
// initReplicateChannelHandler does, minus the stream creation).
func rNewHandler(srcP, tgtP string) *rHandlerEnv {
	env := &rHandlerEnv{target: &rTarget{parts: map[string]int64{}}, droppedC: map[int64]bool{}, droppedP: map[int64]bool{},
		eventChan: make(chan *api.ReplicateAPIEvent, 16), streams: &rStreams{chans: map[string]chan *msgstream.MsgPack{}, seeks: map[string]*msgstream.MsgPosition{}}}
	h := &replicateChannelHandler{
		replicateCtx:      context.Background(),
		replicateID:       rRID,
		sourcePChannel:    srcP,
		targetPChannel:    tgtP,
		targetClient:      env.target,
		streamCreator:     env.streams,
		metaOp:            &api.DefaultMetaOp{},
		collectionRecords: map[int64]*model.TargetCollectionInfo{},
		collectionNames:   map[string]*model.HandlerCollectionInfo{},
		closeStreamFuncs:  map[int64]io.Closer{},
		forwardPackChan:   make(chan *api.ReplicateMsg, 16),
		generatePackChan:  make(chan *api.ReplicateMsg, 16),
		apiEventChan:      env.eventChan,
		handlerOpts:       &model.HandlerOpts{MessageBufferSize: 16, TTInterval: 500},
		ttRateLog:         log.NewRateLog(1, log.L()),
		addCollectionLock: &deadlock.RWMutex{},
		addCollectionCnt:  new(int),
		downstream:        "milvus",
		sourceKey:         true,
		startReadChan:     make(chan struct{}),
	}
	h.isDroppedCollection = func(id int64) bool { return env.droppedC[id] }
	h.isDroppedPartition = func(id int64) bool { return env.droppedP[id] }
	h.forwardMsgFunc = func(ch string, m *api.ReplicateMsg) { env.forwarded = append(env.forwarded, rForward{ch, m}) }
	env.h = h
	return env
}

// rInitTS creates the channel clock the way startReadChannel does.
func rInitTS(tgtP string, floor uint64) *tsInfo {
	GetTSManager().InitTSInfo(rRID, tgtP, 500*time.Millisecond, floor, 16)
	ti, _ := GetTSManager().channelTS2.Get(FormatChanKey(rRID, tgtP))
	return ti
}

func rFreshTSManagerUnused() {
}

// rRegister registers a source collection on the handler (what AddCollection does
// with the records, without starting a stream).
func (env *rHandlerEnv) rRegister(srcID int64, info *model.TargetCollectionInfo) {
	env.h.collectionRecords[srcID] = info
	env.h.collectionNames[info.CollectionName] = &model.HandlerCollectionInfo{CollectionID: srcID, PChannel: env.h.sourcePChannel}
}

func rPos(channel string, id string, ts uint64) *msgpb.MsgPosition {
	return &msgpb.MsgPosition{ChannelName: channel, MsgID: []byte(id), MsgGroup: "grp", Timestamp: ts}
}

func rBase(ts uint64, pos *msgpb.MsgPosition) msgstream.BaseMsg {
	return msgstream.BaseMsg{BeginTimestamp: ts, EndTimestamp: ts, HashValues: []uint32{0}, MsgPosition: pos}
}

func rInsert(collID, partID int64, part, shard string, ts uint64, pos *msgpb.MsgPosition, rows int) *msgstream.InsertMsg {
	tss := make([]uint64, rows)
	ids := make([]int64, rows)
	for i := range tss {
		tss[i], ids[i] = ts, int64(1000+i)
	}
	return &msgstream.InsertMsg{BaseMsg: rBase(ts, pos), InsertRequest: &msgpb.InsertRequest{
		Base: &commonpb.MsgBase{MsgType: commonpb.MsgType_Insert, Timestamp: ts}, CollectionID: collID, PartitionID: partID, PartitionName: part,
		CollectionName: "coll", DbName: "db", ShardName: shard, NumRows: uint64(rows), RowIDs: ids, Timestamps: tss, SegmentID: 55}}
}

func rDelete(collID, partID int64, part, shard string, ts uint64, pos *msgpb.MsgPosition, rows int) *msgstream.DeleteMsg {
	tss := make([]uint64, rows)
	ids := make([]int64, rows)
	for i := range tss {
		tss[i], ids[i] = ts, int64(2000+i)
	}
	return &msgstream.DeleteMsg{BaseMsg: rBase(ts, pos), DeleteRequest: &msgpb.DeleteRequest{
		Base: &commonpb.MsgBase{MsgType: commonpb.MsgType_Delete, Timestamp: ts}, CollectionID: collID, PartitionID: partID, PartitionName: part,
		CollectionName: "coll", DbName: "db", ShardName: shard, NumRows: int64(rows), Int64PrimaryKeys: ids, Timestamps: tss}}
}

func rDropPartition(collID, partID int64, part string, ts uint64, pos *msgpb.MsgPosition) *msgstream.DropPartitionMsg {
	return &msgstream.DropPartitionMsg{BaseMsg: rBase(ts, pos), DropPartitionRequest: &msgpb.DropPartitionRequest{
		Base: &commonpb.MsgBase{MsgType: commonpb.MsgType_DropPartition, Timestamp: ts}, CollectionID: collID, PartitionID: partID, PartitionName: part, CollectionName: "coll", DbName: "db"}}
}

func rDropCollection(collID int64, ts uint64, pos *msgpb.MsgPosition) *msgstream.DropCollectionMsg {
	return &msgstream.DropCollectionMsg{BaseMsg: rBase(ts, pos), DropCollectionRequest: &msgpb.DropCollectionRequest{
		Base: &commonpb.MsgBase{MsgType: commonpb.MsgType_DropCollection, Timestamp: ts}, CollectionID: collID, CollectionName: "coll", DbName: "db"}}
}

func rTick(ts uint64, pos *msgpb.MsgPosition) *msgstream.TimeTickMsg {
	return &msgstream.TimeTickMsg{BaseMsg: rBase(ts, pos), TimeTickMsg: &msgpb.TimeTickMsg{Base: &commonpb.MsgBase{MsgType: commonpb.MsgType_TimeTick, Timestamp: ts}}}
}

func rIsTick(m msgstream.TsMsg) bool { return m.Type() == commonpb.MsgType_TimeTick }

var _ uint64 = math.MaxUint64
