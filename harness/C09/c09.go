//go:build verif

package writer

// C09 harness: every downstream operation targets the mapped database and
// collection. Real code: ChannelWriter.mapDBAndCollectionName, UpdateNameMappings,
// all 18 op-message functions, 4 API-event functions, the DML branches of
// HandleReplicateMessage, the 3 readiness probes, and the real
// MilvusDataHandler methods (only their routing: milvusOp is redirected to a
// recorder, so "which database the call is routed to" is read from real code).

import (
	"context"

	"github.com/milvus-io/milvus-sdk-go/v2/client"
	"github.com/milvus-io/milvus/pkg/mq/msgstream"
	"google.golang.org/protobuf/proto"

	"github.com/zilliztech/milvus-cdc/core/api"
	"github.com/zilliztech/milvus-cdc/core/util"
)

// ---- routing recorder behind the real MilvusDataHandler ----

var c09Routed []string

// c09MilvusOp replaces (*MilvusDataHandler).milvusOp: it records the database the
// real handler method asked to be routed to; the SDK call itself is not executed.
func c09MilvusOp(m *MilvusDataHandler, ctx context.Context, database string, f func(milvus client.Client) error) error {
	c09Routed = append(c09Routed, database)
	return nil
}

// c09Chain: recording fake in front of the real handler.
type c09Chain struct {
	*wHandler
	real *MilvusDataHandler
}

// ---- mapping table and reference ----

type c09Entry struct{ kdb, kcoll, tdb, tcoll string }

func c09Name(tag string, L int) string {
	s := vStr(tag, L)
	vAssume(s != "")
	return s
}

// c09Ref: the task's name mapping applied to source names: a collection-level
// entry, or else a whole-database entry, otherwise unchanged ("" means default).
func c09Ref(db, coll string, es []c09Entry) (string, string) {
	if db == "" {
		db = util.DefaultDbName
	}
	rdb, rcoll := db, coll
	for _, e := range es {
		wild := vAnd(e.kdb == db, e.kcoll == "*")
		rdb = vIteStr(wild, e.tdb, rdb)
	}
	for _, e := range es {
		exact := vAnd(e.kdb == db, e.kcoll == coll)
		rdb = vIteStr(exact, e.tdb, rdb)
		rcoll = vIteStr(exact, e.tcoll, rcoll)
	}
	return rdb, rcoll
}

// c09AnyDBEntry: some entry names database db at all (collection-level or not).
func c09AnyDBEntry(db string, es []c09Entry) bool {
	if db == "" {
		db = util.DefaultDbName
	}
	r := false
	for _, e := range es {
		r = vOr(r, e.kdb == db)
	}
	return r
}

func c09Setup(L, E int) (*ChannelWriter, *wHandler, []c09Entry, string, *wSrc) {
	n := vChoice("entries", E+1)
	var es []c09Entry
	mappings := map[string]string{}
	for i := 0; i < n; i++ {
		e := c09Entry{c09Name("map.srcDB", L), c09Name("map.srcColl", L), c09Name("map.dstDB", L), c09Name("map.dstColl", L)}
		if vBool("map.srcIsDefaultDB") {
			// mappings of the default database are written with its explicit name
			e.kdb = util.DefaultDbName
		}
		// a whole-database entry maps to a whole database
		vAssume((e.kcoll == "*") == (e.tcoll == "*"))
		key := e.kdb + "." + e.kcoll
		_, dup := mappings[key]
		vAssume(!dup)
		mappings[key] = e.tdb + "." + e.tcoll
		es = append(es, e)
	}
	db := ""
	switch vChoice("srcdb", 3) {
	case 1:
		db = util.DefaultDbName
	case 2:
		db = c09Name("src.db", L)
	}
	s := &wSrc{db: db, coll: c09Name("src.coll", L), parts: []string{c09Name("src.part", L)}, index: "idx", field: "f", user: "u", role: "r"}
	vAssume(s.coll != "*")
	h := newWHandler()
	h.onResult = func(kind string, n int) error { return nil }
	w := wNewWriter(h, &wMeta{}, nil, "milvus", "")
	w.UpdateNameMappings(mappings)
	return w, h, es, db, s
}

// routesByParam: call kinds the real MilvusDataHandler routes by param.Database
// (the others are server-level calls routed without a database).
var c09DBLevel = map[string]bool{"CreateDatabase": true, "DropDatabase": true, "AlterDatabase": true}
var c09NoNames = map[string]bool{"CreateUser": true, "DeleteUser": true, "UpdateUser": true, "CreateRole": true, "DropRole": true, "OperateUserRole": true, "OperatePrivilege": true}

// c09Route normalises a routing database: the client manager treats "" as the
// default database (core/util/milvus_client_resource.go: `if database == "" {
// database = DefaultDbName }`).
func c09Route(db string) string { return vIteStr(db == "", util.DefaultDbName, db) }

func c09CheckCall(c wCall, db string, s *wSrc, es []c09Entry) {
	wantDB, wantColl := c09Ref(db, s.coll, es)
	srcDB := c09Route(db)
	switch {
	case c09NoNames[c.kind]:
		return
	case c.kind == "DescribeDatabase" || c09DBLevel[c.kind]:
		// database-level call: with no entry naming that database it is unchanged;
		// a whole-database entry (and no competing collection-level entry) decides;
		// with only collection-level entries for that database the statement is
		// silent, so the collection-aware or the unchanged answer are both accepted
		wdb, _ := c09Ref(db, "\x00none", es)
		if !c09AnyDBEntry(db, es) {
			vAssert(c.reqDB == srcDB, "C09.dblevel-unmapped-unchanged")
		} else if c.kind != "DescribeDatabase" {
			collLevel := false
			for _, e := range es {
				collLevel = vOr(collLevel, vAnd(e.kdb == srcDB, e.kcoll != "*"))
			}
			vAssert(vOr(collLevel, c.reqDB == wdb), "C09.dblevel-whole-db-entry-applies")
		}
	default:
		vAssert(c09Route(c.routeDB) == wantDB, "C09.routed-database-is-mapped:"+c.kind)
		vAssert(vOr(c.reqDB == "", c.reqDB == wantDB), "C09.request-database-is-mapped:"+c.kind)
		if c.kind == "Flush" {
			vAssert(len(c.colls) == 1 && c.colls[0] == wantColl, "C09.request-collection-is-mapped:"+c.kind)
		} else {
			vAssert(c.coll == wantColl, "C09.request-collection-is-mapped:"+c.kind)
		}
	}
}

// c09Bookkeeping: every key of the create/drop tables is built from SOURCE names.
func c09Bookkeeping(w *ChannelWriter, db string, s *wSrc) {
	dc, dd := util.GetDBInfoKeys(db)
	for k := range w.dbInfos.GetUnsafeMap() {
		vAssert(vOr(k == dc, k == dd), "C09.db-bookkeeping-keyed-by-source-names")
	}
	cc, cd := util.GetCollectionInfoKeys(s.coll, db)
	for k := range w.collectionInfos.GetUnsafeMap() {
		vAssert(vOr(k == cc, k == cd), "C09.collection-bookkeeping-keyed-by-source-names")
	}
	pc, pd := util.GetPartitionInfoKeys(s.parts[0], s.coll, db)
	for k := range w.partitionInfos.GetUnsafeMap() {
		vAssert(vOr(k == pc, k == pd), "C09.partition-bookkeeping-keyed-by-source-names")
	}
}

// VerifC09_Ops: the 18 op messages and the 4 API events.
func VerifC09_Ops() {
	L, E := vParam("L", 3), vParam("E", 1)
	nOps := len(wOpKinds) + len(wEventKinds)
	k := vChoice("op", nOps)
	w, h, es, db, s := c09Setup(L, E)
	ts := uint64(1000)
	failing := vBool("downstreamFails")
	kind := ""
	if k < len(wOpKinds) {
		kind = wOpKinds[k]
	} else {
		kind = wEventKinds[k-len(wOpKinds)]
	}
	h.onResult = func(kd string, n int) error {
		if kd == kind && failing {
			return errDownstream
		}
		return nil
	}
	if k < len(wOpKinds) {
		_, _ = w.HandleOpMessagePack(context.Background(), wOpPack(ts, wBuildOp(kind, s, ts)))
	} else {
		_ = w.HandleReplicateAPIEvent(context.Background(), wBuildEvent(kind, s, ts))
	}
	vAssert(len(h.callsOf(kind)) == 1, "C09.op-reached-downstream")
	for _, c := range h.calls {
		c09CheckCall(c, db, s, es)
	}
	c09Bookkeeping(w, db, s)
	vReach("end")
}

// VerifC09_Routing: which database the REAL MilvusDataHandler routes each call to
// (param.Database for collection-scoped calls), chained behind the real writer.
func VerifC09_Routing() {
	L, E := vParam("L", 3), vParam("E", 1)
	kinds := []string{"Flush", "CreateIndex", "DropIndex", "AlterIndex", "LoadCollection", "ReleaseCollection", "LoadPartitions", "ReleasePartitions", "DropCollection", "CreatePartition", "DropPartition"}
	kind := kinds[vChoice("op", len(kinds))]
	w, h, es, db, s := c09Setup(L, E)
	real := &MilvusDataHandler{}
	c09Routed = nil
	ctx := context.Background()
	ts := uint64(1000)
	isEvent := kind == "DropCollection" || kind == "CreatePartition" || kind == "DropPartition"
	if isEvent {
		_ = w.HandleReplicateAPIEvent(ctx, wBuildEvent(kind, s, ts))
	} else {
		_, _ = w.HandleOpMessagePack(ctx, wOpPack(ts, wBuildOp(kind, s, ts)))
	}
	cs := h.callsOf(kind)
	vAssert(len(cs) == 1, "C09.op-reached-downstream")
	// hand the very param the writer built to the real handler method
	switch p := cs[0].param.(type) {
	case *api.FlushParam:
		_ = real.Flush(ctx, p)
	case *api.CreateIndexParam:
		_ = real.CreateIndex(ctx, p)
	case *api.DropIndexParam:
		_ = real.DropIndex(ctx, p)
	case *api.AlterIndexParam:
		_ = real.AlterIndex(ctx, p)
	case *api.LoadCollectionParam:
		_ = real.LoadCollection(ctx, p)
	case *api.ReleaseCollectionParam:
		_ = real.ReleaseCollection(ctx, p)
	case *api.LoadPartitionsParam:
		_ = real.LoadPartitions(ctx, p)
	case *api.ReleasePartitionsParam:
		_ = real.ReleasePartitions(ctx, p)
	case *api.DropCollectionParam:
		_ = real.DropCollection(ctx, p)
	case *api.CreatePartitionParam:
		_ = real.CreatePartition(ctx, p)
	case *api.DropPartitionParam:
		_ = real.DropPartition(ctx, p)
	}
	wantDB, _ := c09Ref(db, s.coll, es)
	vAssert(len(c09Routed) >= 1, "C09.real-handler-routed-the-call")
	for _, r := range c09Routed {
		vAssert(c09Route(r) == wantDB, "C09.real-handler-routes-to-mapped-database:"+kind)
		vAssert(vImplies(wantDB != util.DefaultDbName, c09Route(r) != util.DefaultDbName), "C09.non-default-object-never-operated-in-default:"+kind)
	}
	vReach("end")
}

// ---- DML through HandleReplicateMessage ----

var c09Marshalled []proto.Message

// c09Marshal replaces proto.Marshal under the executor: the bytes are a handle of
// a snapshot of the message at call time (uninterpreted injective encoding).
func c09Marshal(m proto.Message) ([]byte, error) {
	c09Marshalled = append(c09Marshalled, proto.Clone(m))
	return []byte{byte(len(c09Marshalled))}, nil
}

type c09Named interface {
	GetDbName() string
	GetCollectionName() string
}

func c09Decode(kind string, b []byte) c09Named {
	if vSymbolic() {
		return c09Marshalled[int(b[0])-1].(c09Named)
	}
	// native replay: Milvus' own decoder on the real bytes
	var tm msgstream.TsMsg
	var err error
	switch kind {
	case "Insert":
		tm, err = (&msgstream.InsertMsg{}).Unmarshal(b)
	case "Delete":
		tm, err = (&msgstream.DeleteMsg{}).Unmarshal(b)
	case "DropPartition":
		tm, err = (&msgstream.DropPartitionMsg{}).Unmarshal(b)
	case "DropCollection":
		tm, err = (&msgstream.DropCollectionMsg{}).Unmarshal(b)
	case "Import":
		tm, err = (&msgstream.ImportMsg{}).Unmarshal(b)
	}
	if err != nil {
		panic(err)
	}
	return tm.(c09Named)
}

// VerifC09_DML: the five DML message kinds carry the mapped names in the bytes
// handed downstream.
func VerifC09_DML() {
	L, E := vParam("L", 3), vParam("E", 1)
	kind := wDMLKinds[vChoice("kind", len(wDMLKinds))]
	w, h, es, db, s := c09Setup(L, E)
	c09Marshalled = nil
	ts := uint64(1000)
	pack := wOpPack(ts, wBuildDML(kind, s, ts))
	_, _, err := w.HandleReplicateMessage(context.Background(), "target-ch", pack)
	vAssert(err == nil, "C09.dml-accepted")
	cs := h.callsOf("ReplicateMessage")
	vAssert(len(cs) == 1, "C09.dml-one-downstream-call")
	p := cs[0].param.(*api.ReplicateMessageParam)
	vAssert(len(p.MsgsBytes) == 1, "C09.dml-one-message")
	m := c09Decode(kind, p.MsgsBytes[0])
	wantDB, wantColl := c09Ref(db, s.coll, es)
	vAssert(m.GetDbName() == wantDB, "C09.dml-database-is-mapped:"+kind)
	vAssert(m.GetCollectionName() == wantColl, "C09.dml-collection-is-mapped:"+kind)
	vReach("end")
}
