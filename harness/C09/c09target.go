//go:build verif

package reader

// C09, second part: the reader's downstream look-ups (TargetClient.GetCollectionInfo /
// GetPartitionInfo / GetDatabaseName / mapDBAndCollectionName) address the mapped database
// and collection. The manager pairs shards, rewrites ids and partitions from these answers,
// so a look-up routed to the wrong database or collection silently re-addresses the stream.
// (*TargetClient).milvusOp is redirected to a recorder that hands the closure a fake SDK
// client; everything else is the real code.

import (
	"context"

	"github.com/milvus-io/milvus-sdk-go/v2/client"
	"github.com/milvus-io/milvus-sdk-go/v2/entity"

	"github.com/zilliztech/milvus-cdc/core/util"
)

type c09tCall struct{ kind, db, coll string }

var c09tCalls []c09tCall
var c09tCurDB string

type c09tClient struct{ client.Client }

func (c *c09tClient) DescribeCollection(ctx context.Context, name string) (*entity.Collection, error) {
	c09tCalls = append(c09tCalls, c09tCall{"DescribeCollection", c09tCurDB, name})
	return &entity.Collection{ID: 900, Name: name, PhysicalChannels: []string{"tgt-dml_0"}, VirtualChannels: []string{"tgt-dml_0_900v0"}}, nil
}

func (c *c09tClient) ShowPartitions(ctx context.Context, name string) ([]*entity.Partition, error) {
	c09tCalls = append(c09tCalls, c09tCall{"ShowPartitions", c09tCurDB, name})
	return []*entity.Partition{{ID: 1, Name: "_default"}}, nil
}

func c09tMilvusOp(t *TargetClient, ctx context.Context, database string, f func(milvus client.Client) error) error {
	c09tCurDB = database
	return f(&c09tClient{})
}

type c09tEntry struct{ kdb, kcoll, tdb, tcoll string }

func c09tName(tag string, L int) string {
	s := vStr(tag, L)
	vAssume(s != "")
	return s
}

// reference: a collection-level entry, or else a whole-database entry, otherwise unchanged
func c09tRef(db, coll string, es []c09tEntry) (string, string) {
	if db == "" {
		db = util.DefaultDbName
	}
	rdb, rcoll := db, coll
	for _, e := range es {
		rdb = vIteStr(vAnd(e.kdb == db, e.kcoll == "*"), e.tdb, rdb)
	}
	for _, e := range es {
		exact := vAnd(e.kdb == db, e.kcoll == coll)
		rdb = vIteStr(exact, e.tdb, rdb)
		rcoll = vIteStr(exact, e.tcoll, rcoll)
	}
	return rdb, rcoll
}

// VerifC09_TargetClient: an arbitrary mapping table (E entries, exact / whole-database /
// unrelated shapes, chains in which the target of one entry is the source of another
// included), an arbitrary source database ('' / default / other) and collection.
func VerifC09_TargetClient() {
	L, E := vParam("L", 2), vParam("E", 2)
	n := vChoice("entries", E+1)
	var es []c09tEntry
	mappings := map[string]string{}
	for i := 0; i < n; i++ {
		e := c09tEntry{c09tName("map.srcDB", L), c09tName("map.srcColl", L), c09tName("map.dstDB", L), c09tName("map.dstColl", L)}
		// FLAGS=0 (quick): only the first entry may be keyed by the explicit default database
		if (i == 0 || vParam("FLAGS", 0) == 1) && vBool("map.srcIsDefaultDB") {
			e.kdb = util.DefaultDbName
		}
		if vParam("FLAGS", 0) == 1 && vBool("map.dstIsDefaultDB") {
			e.tdb = util.DefaultDbName
		}
		vAssume((e.kcoll == "*") == (e.tcoll == "*"))
		key := e.kdb + "." + e.kcoll
		_, dup := mappings[key]
		vAssume(!dup)
		mappings[key] = e.tdb + "." + e.tcoll
		es = append(es, e)
	}
	db := ""
	switch vChoice("srcdb", 3) {
	case 1:
		db = util.DefaultDbName
	case 2:
		db = c09tName("src.db", L)
	}
	coll := c09tName("src.coll", L)
	vAssume(coll != "*")
	t := &TargetClient{}
	t.UpdateNameMappings(mappings)
	wantDB, wantColl := c09tRef(db, coll, es)
	c09tCalls = nil
	ctx := context.Background()
	info, err := t.GetCollectionInfo(ctx, coll, db)
	vAssert(err == nil && info != nil, "C09.target-lookup-answers")
	if info != nil {
		// the answer is keyed by the SOURCE names (the manager's bookkeeping), the ids are the downstream's
		vAssert(info.DatabaseName == db && info.CollectionName == coll && info.CollectionID == 900, "C09.lookup-answer-keeps-source-names")
	}
	vAssert(len(c09tCalls) == 2, "C09.collection-lookup-is-describe-plus-show-partitions")
	pinfo, err := t.GetPartitionInfo(ctx, coll, db)
	vAssert(err == nil && pinfo != nil && pinfo.Partitions["_default"] == 1, "C09.target-lookup-answers")
	vAssert(len(c09tCalls) == 3, "C09.partition-lookup-is-one-downstream-call")
	for _, c := range c09tCalls {
		vAssert(c.db == wantDB, "C09.target-lookup-routed-to-the-mapped-database:"+c.kind)
		vAssert(c.coll == wantColl, "C09.target-lookup-names-the-mapped-collection:"+c.kind)
	}
	vReach("end")
}
