//go:build verif

package server

import (
	coreapi "github.com/zilliztech/milvus-cdc/core/api"
)

// VerifC05_CreatedCollectionStartPosition: a collection is created upstream while the task
// runs. At the instant its create request reaches the downstream (a crash point: the downstream
// may apply it and the process die right after) the collection's start position must already be
// persisted as the checkpoint of (task, collection, source channel) - it is the only thing a
// restart can seek the new collection from; without it the restart subscribes at the latest
// message and every row written since the creation is lost. The same when the downstream
// rejects the create (the task pauses and is resumed later).
func VerifC05_CreatedCollectionStartPosition() {
	fl := sNewFlowBatch(true, 1)
	fl.writer.canFail = true
	reached := 0
	fl.writer.onEvent = func(ev *coreapi.ReplicateAPIEvent) {
		if ev.EventType != coreapi.ReplicateCreateCollection {
			return
		}
		reached++
		p, has := fl.storedPos(fl.a, 7)
		vAssert(has && p == "start-n", "C05.start-position-of-a-created-collection-is-persisted-before-the-create-reaches-the-downstream")
	}
	fl.mgr.eventChan <- &coreapi.ReplicateAPIEvent{EventType: coreapi.ReplicateCreateCollection, TaskID: fl.a, CollectionInfo: sCollInfo(7, "n", 9<<18)}
	vQuiesce()
	vAssert(reached == 1, "C05.create-request-reaches-the-downstream-once")
	// whatever the downstream answered, the restart finds the start position
	p, has := fl.storedPos(fl.a, 7)
	vAssert(has && p == "start-n", "C05.start-position-of-a-created-collection-survives-a-rejected-create")
	vReach("end")
}
