//go:build verif

package server

// C05 harness: checkpoints never run ahead of acknowledged writes; resume loses
// nothing; checkpoints of a dropped collection are frozen. Real code: the write
// goroutine startReplicateDMLMsg with the packer and replicateMsgsFunc, the event
// goroutine (drop collection -> UpdateDropStateCollectionPosition), WriteCallback,
// store.UpdateTaskCollectionPosition / UpdateDropStateTaskCollectionPosition,
// pauseTaskWithReason, and after a restart ReloadTask -> startInternal (checkpoint ->
// seek position).

import (
	"github.com/milvus-io/milvus/pkg/util/tsoutil"

	coreapi "github.com/zilliztech/milvus-cdc/core/api"
	"github.com/zilliztech/milvus-cdc/server/model/meta"
)

type c05Key struct {
	task string
	coll int64
	name string
	sent []string // message ids of the packs handed to the server, in stream order
}

func c05Acked(fl *sFlow, id string) bool {
	for _, w := range []*sWriter{fl.writer, fl.bWriter} {
		for _, a := range w.acks {
			if string(a.pack.EndPositions[0].MsgID) == id {
				return true
			}
		}
	}
	return false
}

// c05CheckPos: a checkpoint id of a key names a pack that was acknowledged together
// with every earlier pack of the key.
func c05CheckPos(fl *sFlow, k *c05Key, id string, tag string) {
	idx := -1
	for i, s := range k.sent {
		if s == id {
			idx = i
		}
	}
	vAssert(idx >= 0, "C05.checkpoint-names-a-pack-of-its-own-stream"+tag)
	for i := 0; i <= idx; i++ {
		vAssert(c05Acked(fl, k.sent[i]), "C05.checkpoint-not-ahead-of-acknowledged-writes"+tag)
	}
}

// VerifC05_WriteLoop: K packs over two (task, collection) streams on the downstream
// channel, any batch size, downstream rejections and checkpoint-store failures on free
// booleans. The invariant is asserted at EVERY checkpoint write that reaches the store
// (the externally visible step after which a crash would leave that state) and after
// every quiescent point.
func VerifC05_WriteLoop() {
	K := vParam("K", 3)
	fl := sNewFlowBatchSize(vBool("sameTarget"), 1+vChoice("batchSize", vParam("B", 2)), 1)
	fl.w.f.faultOn = "pos"
	fl.w.f.maxF = 2
	keys := []*c05Key{{task: fl.a, coll: 1, name: "a"}, {task: fl.b, coll: 2, name: "b"}}
	find := func(task string, coll int64) *c05Key {
		for _, k := range keys {
			if k.task == task && k.coll == coll {
				return k
			}
		}
		return nil
	}
	fl.w.f.onPutPos = func(p *meta.TaskCollectionPosition) {
		k := find(p.TaskID, p.CollectionID)
		if k == nil {
			return
		}
		if pi, ok := p.Positions[sSrcP]; ok && pi != nil && pi.DataPair != nil {
			c05CheckPos(fl, k, string(pi.DataPair.Data), ":at-the-write")
		}
	}
	fl.writer.canFail, fl.bWriter.canFail = true, true
	fl.w.f.faults, fl.w.f.nFault = vBool("storeMayFail"), 0
	oversizedUsed := false
	for n := 0; n < K; n++ {
		k := keys[vChoice("stream", 2)]
		id := k.name + string(rune('1'+len(k.sent)))
		k.sent = append(k.sent, id)
		ch := fl.ch
		if k.task == fl.b {
			ch = fl.bCh
		}
		before, had := fl.storedPos(k.task, k.coll)
		nAck := len(fl.writer.acks) + len(fl.bWriter.acks)
		rows := 1
		isData := vBool("dataPack")
		if isData && !oversizedUsed && vBool("oversizedPack") {
			rows = 2000 // above the batcher's size threshold (1 KB in this scenario); at most one per history
			oversizedUsed = true
		}
		ch <- sPackRows(k.task, k.coll, k.name, id, uint64(100+n)<<18, isData, rows)
		vQuiesce()
		for _, kk := range keys {
			if pos, has := fl.storedPos(kk.task, kk.coll); has {
				c05CheckPos(fl, kk, pos, ":quiescent")
			}
		}
		if len(fl.writer.acks)+len(fl.bWriter.acks) == nAck {
			// nothing was acknowledged in this step: no checkpoint moved
			after, has := fl.storedPos(k.task, k.coll)
			vAssert(had == has && before == after, "C05.no-acknowledgement-no-checkpoint-move")
		}
	}
	vReach("end")
}

// VerifC05_DropFreezes: after the drop of a collection has been replayed its checkpoints
// are marked and never move again, whatever arrives later for it.
func VerifC05_DropFreezes() {
	fl := sNewFlowBatch(true, 1)
	fl.ch <- sPack(fl.a, 1, "a", "a1", 100<<18, true)
	vQuiesce()
	p1, has1 := fl.storedPos(fl.a, 1)
	vAssert(has1 && p1 == "a1", "C05.acknowledged-pack-is-checkpointed")
	fl.mgr.eventChan <- &coreapi.ReplicateAPIEvent{EventType: coreapi.ReplicateDropCollection, TaskID: fl.a, CollectionInfo: sCollInfo(1, "a", 5<<18)}
	vQuiesce()
	for _, p := range fl.w.f.poss {
		if p.TaskID == fl.a && p.CollectionID == 1 {
			for _, pi := range p.Positions {
				vAssert(pi.Dropped, "C05.dropped-collection-checkpoints-are-marked")
			}
			for _, pi := range p.TargetPositions {
				vAssert(pi.Dropped, "C05.dropped-collection-checkpoints-are-marked")
			}
		}
	}
	// a trailing pack of the dropped collection (any kind, any time)
	fl.ch <- sPack(fl.a, 1, "a", "a2", vU64("trailing.endTs")&(sLim-1), vBool("trailing.data"))
	vQuiesce()
	p2, has2 := fl.storedPos(fl.a, 1)
	vAssert(has2 && p2 == "a1", "C05.dropped-collection-checkpoint-is-frozen")
	// the other collection of the task still advances
	fl.ch <- sPack(fl.a, 3, "c", "c1", 300<<18, true)
	vQuiesce()
	p3, has3 := fl.storedPos(fl.a, 3)
	vAssert(has3 && p3 == "c1", "C05.other-collection-still-advances")
	vReach("end")
}

// VerifC05_Resume: the last acknowledged pack of a stream is checkpointed; the process
// dies; a new server reloads the store and the REAL startInternal turns the checkpoint
// into the seek position handed to the reader. With the MQ seek contract (after
// Seek(id, T) a message following id is delivered iff its timestamp is > T, until a tick
// >= T has passed - milvus pkg mq/msgstream MqTtMsgStream.Seek) every source message
// after the acknowledged pack must be delivered again.
func VerifC05_Resume() {
	fl := sNewFlowBatch(true, 1)
	e := vU64("acked.emittedEndTs") // end timestamp of the acknowledged pack as emitted (downstream time domain)
	s := vU64("acked.sourceEndTs")  // its end timestamp in the source stream
	vAssume(vAnd(vAnd(s >= 1<<18, s <= e), e < sLim)) // rewriting only moves a pack forward (C03)
	fl.ch <- sPack(fl.a, 1, "a", "a1", e, true)
	vQuiesce()
	p1, has1 := fl.storedPos(fl.a, 1)
	vAssert(has1 && p1 == "a1", "C05.acknowledged-pack-is-checkpointed")
	// crash and restart
	fl.w.collRds = nil
	cdc2 := sNewCDC(fl.w.f)
	cdc2.ReloadTask()
	var rd *sReader
	for _, r := range fl.w.collRds {
		if r.taskID == fl.a {
			rd = r
		}
	}
	vAssert(rd != nil, "C05.restart-starts-a-reader-for-the-task")
	if rd == nil {
		return
	}
	seek := rd.seek[1][sSrcP]
	vAssert(seek != nil && string(seek.MsgID) == "a1" && seek.ChannelName == sSrcP, "C05.resume-seeks-to-the-last-acknowledged-pack")
	if seek == nil {
		return
	}
	T := seek.Timestamp
	ms, _ := tsoutil.ParseHybridTs(e)
	vAssert(T == 0 || T == tsoutil.ComposeTS(ms+1, 0), "C05.seek-time-is-derived-from-the-checkpoint")
	// the next source message of the stream (not acknowledged): strictly later than the
	// acknowledged pack's closing tick in source time
	s2 := vU64("next.sourceTs")
	vAssume(vAnd(s2 > s, s2 < sLim))
	// Known finding C05-resume-time-filter: the seek time is taken from the EMITTED end
	// timestamp, rounded up to the next millisecond: unacknowledged source messages whose
	// source timestamp is not above it are filtered out by the MQ after the seek
	vKnown("C05-resume-time-filter", s2 <= T)
	vAssert(s2 > T, "C05.every-unacknowledged-message-is-read-again")
	vReach("end")
}
