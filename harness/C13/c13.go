//go:build verif

package reader

// C13 harness: no source collection or partition is missed at task start, whatever the
// timing of its creation relative to the reader's subscribe / watch / list / start-watch
// steps. Real code: CollectionReader.StartRead (the two consumers, the newest-incarnation
// selection, the partition pass), EtcdOp.{WatchCollection, WatchPartition, StartWatch,
// Subscribe*, GetAllCollection, internalGetAllCollection, GetAllPartition,
// internalGetAllPartition, getDatabases, GetCollectionNameByID, getCollectionNameByID,
// GetDatabaseInfoForCollection, fillCollectionField, get*IDFrom*Key}.
// The etcd client is a harness catalog: Get reads the current catalog, Watch delivers
// every write made after the Watch call, in order (the etcd contract). Catalog writes are
// injected at chosen steps of StartRead by hooks around the real EtcdOp methods.

import (
	"context"
	"strconv"
	"strings"

	"github.com/golang/protobuf/proto"
	"go.etcd.io/etcd/api/v3/mvccpb"
	clientv3 "go.etcd.io/etcd/client/v3"

	"github.com/milvus-io/milvus-proto/go-api/v2/msgpb"
	"github.com/milvus-io/milvus-proto/go-api/v2/schemapb"
	"github.com/milvus-io/milvus/pkg/util/conc"

	"github.com/zilliztech/milvus-cdc/core/api"
	"github.com/zilliztech/milvus-cdc/core/model"
	"github.com/zilliztech/milvus-cdc/core/pb"
	"github.com/zilliztech/milvus-cdc/core/util"
)

// ---- the catalog behind the fake etcd client ----

var c13Prefix bool

func c13WithPrefix() clientv3.OpOption { return func(op *clientv3.Op) { c13Prefix = true } }
func c13WithPrevKV() clientv3.OpOption { return func(op *clientv3.Op) {} }

func c13HasPrefixOpt(opts []clientv3.OpOption) bool {
	if !vSymbolic() {
		return len(clientv3.OpGet("k", opts...).RangeBytes()) > 0
	}
	c13Prefix = false
	var op clientv3.Op
	for _, o := range opts {
		o(&op)
	}
	return c13Prefix
}

type c13Watch struct {
	prefix string
	ch     chan clientv3.WatchResponse
}

type c13Etcd struct {
	clientv3.KV
	clientv3.Watcher
	keys    []string
	data    map[string][]byte
	watches []*c13Watch
}

func c13NewOf[T any](_ []*T) *T { return new(T) }

func (e *c13Etcd) Get(ctx context.Context, key string, opts ...clientv3.OpOption) (*clientv3.GetResponse, error) {
	prefix := c13HasPrefixOpt(opts)
	resp := &clientv3.GetResponse{}
	for _, s := range e.keys {
		if (prefix && strings.HasPrefix(s, key)) || s == key {
			kv := c13NewOf(resp.Kvs)
			kv.Key, kv.Value = []byte(s), e.data[s]
			resp.Kvs = append(resp.Kvs, kv)
		}
	}
	return resp, nil
}

func (e *c13Etcd) Watch(ctx context.Context, key string, opts ...clientv3.OpOption) clientv3.WatchChan {
	w := &c13Watch{prefix: key, ch: make(chan clientv3.WatchResponse, 16)}
	e.watches = append(e.watches, w)
	return w.ch
}

func (e *c13Etcd) RequestProgress(ctx context.Context) error { return nil }
func (e *c13Etcd) Close() error                               { return nil }

// put writes one key; every watch opened BEFORE the write and covering the key gets the event
func (e *c13Etcd) put(key string, val []byte) {
	prev, had := e.data[key]
	if !had {
		e.keys = append(e.keys, key)
	}
	e.data[key] = val
	for _, w := range e.watches {
		if strings.HasPrefix(key, w.prefix) {
			ev := &clientv3.Event{Type: mvccpb.PUT, Kv: &mvccpb.KeyValue{Key: []byte(key), Value: val}}
			if had {
				ev.PrevKv = &mvccpb.KeyValue{Key: []byte(key), Value: prev}
			}
			w.ch <- clientv3.WatchResponse{Events: []*clientv3.Event{ev}}
		}
	}
}

const c13Root = "by-dev/meta/"

func (e *c13Etcd) putDB(id int64, name string) {
	b, _ := proto.Marshal(&pb.DatabaseInfo{Id: id, Name: name})
	e.put(c13Root+databasePrefix+"/"+strconv.FormatInt(id, 10), b)
}

func (e *c13Etcd) putCollection(db, id int64, name string, state pb.CollectionState, createTime uint64) {
	info := &pb.CollectionInfo{ID: id, DbId: db, Schema: &schemapb.CollectionSchema{Name: name}, State: state, CreateTime: createTime,
		StartPositions: nil}
	b, _ := proto.Marshal(info)
	fb, _ := proto.Marshal(&schemapb.FieldSchema{FieldID: 100, Name: "pk"})
	e.put(c13Root+fieldPrefix+"/"+strconv.FormatInt(id, 10)+"/100", fb)
	e.put(c13Root+collectionPrefix+"/"+strconv.FormatInt(db, 10)+"/"+strconv.FormatInt(id, 10), b)
}

func (e *c13Etcd) putPartition(coll, id int64, name string, state pb.PartitionState) {
	b, _ := proto.Marshal(&pb.PartitionInfo{PartitionID: id, CollectionId: coll, PartitionName: name, State: state})
	e.put(c13Root+partitionPrefix+"/"+strconv.FormatInt(coll, 10)+"/"+strconv.FormatInt(id, 10), b)
}

func c13NewEtcdOp(e *c13Etcd) *EtcdOp {
	return &EtcdOp{
		endpoints: []string{"fake"}, rootPath: "by-dev", metaSubPath: "meta", defaultPartitionName: "_default",
		etcdClient:            &clientv3.Client{KV: e, Watcher: e},
		retryOptions:          util.GetRetryOptions(c13Retry()),
		handlerWatchEventPool: conc.NewPool[struct{}](16),
		startWatch:            make(chan struct{}),
	}
}

// ---- recording channel manager ----

type c13Mgr struct {
	api.DefaultChannelManager
	started    []int64
	dropped    []int64
	partitions [][2]int64
	droppedP   []int64
	startedDB  map[int64]string // database name handed over with every started collection
}

func (m *c13Mgr) StartReadCollection(ctx context.Context, db *model.DatabaseInfo, info *pb.CollectionInfo, seek []*msgpb.MsgPosition, startTs map[string]uint64) error {
	m.started = append(m.started, info.ID)
	if m.startedDB == nil {
		m.startedDB = map[int64]string{}
	}
	if db != nil {
		m.startedDB[info.ID] = db.Name
	}
	return nil
}
func (m *c13Mgr) AddDroppedCollection(ids []int64) { m.dropped = append(m.dropped, ids...) }
func (m *c13Mgr) AddDroppedPartition(ids []int64)  { m.droppedP = append(m.droppedP, ids...) }
func (m *c13Mgr) AddPartition(ctx context.Context, db *model.DatabaseInfo, c *pb.CollectionInfo, p *pb.PartitionInfo) error {
	m.partitions = append(m.partitions, [2]int64{c.ID, p.PartitionID})
	return nil
}

func c13Count(l []int64, x int64) int {
	n := 0
	for _, y := range l {
		if y == x {
			n++
		}
	}
	return n
}

// ---- injection of catalog writes at the steps of StartRead ----

var (
	c13At    int           // step after which the late write happens
	c13Write func()        // the late catalog write
	c13Done  bool
)

const (
	c13BeforeStart = iota
	c13AfterWatch
	c13AfterListCollections
	c13AfterListPartitions
	c13AfterStartWatch
	c13Steps
)

func c13Inject(step int) {
	if c13Write != nil && !c13Done && c13At == step {
		c13Done = true
		c13Write()
	}
}

func c13HookAfterWatchPartition(e *EtcdOp, ctx context.Context, filter api.PartitionFilter) { c13Inject(c13AfterWatch) }
func c13HookAfterGetAllCollection(e *EtcdOp, ctx context.Context, filter api.CollectionFilter) {
	c13Inject(c13AfterListCollections)
}
func c13HookAfterGetAllPartition(e *EtcdOp, ctx context.Context, filter api.PartitionFilter) {
	c13Inject(c13AfterListPartitions)
}

// VerifC13_HandOff: a catalog with existing objects, one collection and one partition that
// are created at an arbitrary step of the reader's start sequence.
func VerifC13_HandOff() {
	etcd := &c13Etcd{data: map[string][]byte{}}
	etcd.putDB(1, "default")
	// an existing collection (id 10) with an existing non-default partition (id 101)
	etcd.putCollection(1, 10, "a", pb.CollectionState_CollectionCreated, 1000)
	etcd.putPartition(10, 100, "_default", pb.PartitionState_PartitionCreated)
	etcd.putPartition(10, 101, "p1", pb.PartitionState_PartitionCreated)
	op := c13NewEtcdOp(etcd)
	mgr := &c13Mgr{}
	// the task selects its collections by database name ("default" and the database "sales",
	// which does not exist yet when the task starts)
	all := func(db *model.DatabaseInfo, c *pb.CollectionInfo) (bool, bool) {
		return false, db.Name == "default" || db.Name == "sales"
	}
	rd, _ := NewCollectionReader("task", mgr, op, nil, nil, all, c13ReaderCfg())
	// the late objects: collection 20 (created, via creating when the write is a transition),
	// partition 102 of the existing collection, or a NEW database "sales" with collection 30
	lateKind := vChoice("late", 3)
	c13At, c13Done = vChoice("writeStep", c13Steps), false
	c13Write = func() {
		if lateKind == 0 {
			etcd.putCollection(1, 20, "b", pb.CollectionState_CollectionCreating, 2000)
			etcd.putCollection(1, 20, "b", pb.CollectionState_CollectionCreated, 2000)
		} else if lateKind == 2 {
			etcd.putDB(2, "sales")
			etcd.putCollection(2, 30, "c", pb.CollectionState_CollectionCreating, 3000)
			etcd.putCollection(2, 30, "c", pb.CollectionState_CollectionCreated, 3000)
		} else {
			etcd.putPartition(10, 102, "p2", pb.PartitionState_PartitionCreating)
			etcd.putPartition(10, 102, "p2", pb.PartitionState_PartitionCreated)
		}
	}
	c13Inject(c13BeforeStart)
	rd.StartRead(context.Background())
	c13Inject(c13AfterStartWatch)
	vQuiesce()
	// the existing objects are started
	vAssert(c13Count(mgr.started, 10) >= 1, "C13.existing-collection-is-started")
	npart := 0
	for _, p := range mgr.partitions {
		if p == [2]int64{10, 101} {
			npart++
		}
		vAssert(p[1] != 100, "C13.default-partition-is-not-added")
	}
	vAssert(npart >= 1, "C13.existing-partition-is-added")
	// the late object is started whatever the step of its creation
	vAssert(mgr.startedDB[10] == "default", "C13.collection-is-started-under-its-database")
	if lateKind == 0 {
		vAssert(c13Count(mgr.started, 20) >= 1, "C13.collection-created-during-start-is-not-missed")
	} else if lateKind == 2 {
		vAssert(c13Count(mgr.started, 30) >= 1, "C13.collection-of-a-database-created-during-start-is-not-missed")
		vAssert(c13Count(mgr.started, 30) < 1 || mgr.startedDB[30] == "sales", "C13.collection-is-started-under-its-database")
	} else {
		n := 0
		for _, p := range mgr.partitions {
			if p == [2]int64{10, 102} {
				n++
			}
		}
		vAssert(n >= 1, "C13.partition-created-during-start-is-not-missed")
	}
	vReach("end")
}

// VerifC13_Incarnations: a listing with several incarnations of one name (and of other
// names, in two databases): only the newest incarnation of every (database, name) is
// started, the older ones are recorded as dropped; objects that went from creating
// straight to dropped are ignored.
func VerifC13_Incarnations() {
	N := vParam("N", 3)
	etcd := &c13Etcd{data: map[string][]byte{}}
	etcd.putDB(1, "default")
	etcd.putDB(2, "other")
	type rec struct {
		id, db int64
		name   string
		ct     uint64
		state  pb.CollectionState
	}
	var recs []rec
	for i := 0; i < N; i++ {
		r := rec{id: int64(10 + i), db: 1 + int64(vChoice("db", 2)), ct: vU64("createTime")}
		if vBool("name.isA") {
			r.name = "a"
		} else {
			r.name = "b"
		}
		vAssume(vAnd(r.ct >= 1, r.ct < 1<<40))
		for _, o := range recs {
			vAssume(o.ct != r.ct) // create times are unique timestamps
		}
		switch vChoice("state", 3) {
		case 0:
			r.state = pb.CollectionState_CollectionCreated
		case 1:
			r.state = pb.CollectionState_CollectionDropped
		case 2:
			r.state = pb.CollectionState_CollectionCreating
		}
		recs = append(recs, r)
		etcd.putCollection(r.db, r.id, r.name, r.state, r.ct)
	}
	op := c13NewEtcdOp(etcd)
	mgr := &c13Mgr{}
	all := func(*model.DatabaseInfo, *pb.CollectionInfo) (bool, bool) { return false, true }
	rd, _ := NewCollectionReader("task", mgr, op, nil, nil, all, c13ReaderCfg())
	rd.StartRead(context.Background())
	vQuiesce()
	for _, r := range recs {
		listed := r.state != pb.CollectionState_CollectionCreating // the listing keeps created / dropped / dropping records
		newest := listed
		for _, o := range recs {
			if o.id != r.id && o.db == r.db && o.name == r.name && o.state != pb.CollectionState_CollectionCreating {
				newest = vAnd(newest, o.ct < r.ct)
			}
		}
		if !listed {
			vAssert(c13Count(mgr.started, r.id) == 0, "C13.not-yet-created-collection-is-not-started-from-the-listing")
			continue
		}
		n := c13Count(mgr.started, r.id)
		vAssert(vImplies(newest, n == 1), "C13.newest-incarnation-is-started-once")
		vAssert(vImplies(!newest, n == 0), "C13.older-incarnation-is-not-started")
		vAssert(vImplies(!newest, c13Count(mgr.dropped, r.id) >= 1), "C13.older-incarnation-is-recorded-as-dropped")
		vAssert(vImplies(newest, c13Count(mgr.dropped, r.id) == 0), "C13.newest-incarnation-is-not-recorded-as-dropped")
	}
	vReach("end")
}

// ---- a partition notification that overtakes its collection's notification ----

var (
	c13HoldOn   bool
	c13HoldGate chan struct{}
)

// hook before (*EtcdOp).fillCollectionField: the processing of the late collection's
// watch event is held until the partition notification has been handled
func c13HookBeforeFill(e *EtcdOp, info *pb.CollectionInfo) {
	if c13HoldOn && info.ID == 20 {
		<-c13HoldGate
	}
}

// VerifC13_PartitionOvertakesCollection: after the task has started, a collection and a
// non-default partition of it are created; the partition notification is handled before
// the collection notification has been processed (the two watchers are independent
// goroutines). The catalog has one or two databases. The partition must not be lost.
func VerifC13_PartitionOvertakesCollection() {
	etcd := &c13Etcd{data: map[string][]byte{}}
	etcd.putDB(1, "default")
	twoDBs := vBool("secondDatabaseExists")
	if twoDBs {
		etcd.putDB(2, "other")
	}
	etcd.putCollection(1, 10, "a", pb.CollectionState_CollectionCreated, 1000)
	op := c13NewEtcdOp(etcd)
	mgr := &c13Mgr{}
	all := func(*model.DatabaseInfo, *pb.CollectionInfo) (bool, bool) { return false, true }
	rd, _ := NewCollectionReader("task", mgr, op, nil, nil, all, c13ReaderCfg())
	c13Write = nil
	rd.StartRead(context.Background())
	vQuiesce()
	c13HoldOn, c13HoldGate = true, make(chan struct{})
	etcd.putCollection(1, 20, "b", pb.CollectionState_CollectionCreated, 2000)
	etcd.putPartition(20, 201, "p1", pb.PartitionState_PartitionCreated)
	vQuiesce() // the partition notification is handled while the collection's is held
	close(c13HoldGate)
	vQuiesce()
	c13HoldOn = false
	vAssert(c13Count(mgr.started, 20) >= 1, "C13.collection-created-after-start-is-started")
	n := 0
	for _, p := range mgr.partitions {
		if p == [2]int64{20, 201} {
			n++
		}
	}
	vAssert(n >= 1, "C13.partition-whose-notification-overtakes-its-collection-is-not-lost")
	vReach("end")
}

// VerifC13_SecondTaskHandOff: two tasks of one target share one EtcdOp (one watch, one
// start-watch gate - already open when the second task starts). Task A is running; while
// task B goes through its start sequence a collection or a non-default partition that only B
// selects is created at any of the five steps. B must start it (and A must not).
func VerifC13_SecondTaskHandOff() {
	etcd := &c13Etcd{data: map[string][]byte{}}
	etcd.putDB(1, "default")
	etcd.putDB(2, "sales")
	etcd.putCollection(1, 10, "a", pb.CollectionState_CollectionCreated, 1000)
	etcd.putCollection(2, 40, "s", pb.CollectionState_CollectionCreated, 1500)
	etcd.putPartition(40, 400, "_default", pb.PartitionState_PartitionCreated)
	op := c13NewEtcdOp(etcd)
	mgrA, mgrB := &c13Mgr{}, &c13Mgr{}
	selA := func(db *model.DatabaseInfo, c *pb.CollectionInfo) (bool, bool) { return false, db.Name == "default" }
	selB := func(db *model.DatabaseInfo, c *pb.CollectionInfo) (bool, bool) { return false, db.Name == "sales" }
	rdA, _ := NewCollectionReader("task-a", mgrA, op, nil, nil, selA, c13ReaderCfg())
	rdB, _ := NewCollectionReader("task-b", mgrB, op, nil, nil, selB, c13ReaderCfg())
	c13Write = nil
	rdA.StartRead(context.Background())
	vQuiesce()
	lateKind := vChoice("late", 2)
	c13At, c13Done = vChoice("writeStep", c13Steps), false
	// the shared watch is live (its gate was opened by task A): the notification of the late
	// write is dispatched at once - while B is still inside its start sequence - or later
	atOnce := vBool("notificationDispatchedAtOnce")
	c13Write = func() {
		if lateKind == 0 {
			etcd.putCollection(2, 50, "t", pb.CollectionState_CollectionCreating, 2000)
			etcd.putCollection(2, 50, "t", pb.CollectionState_CollectionCreated, 2000)
		} else {
			etcd.putPartition(40, 402, "p2", pb.PartitionState_PartitionCreating)
			etcd.putPartition(40, 402, "p2", pb.PartitionState_PartitionCreated)
		}
		if atOnce {
			vQuiesce()
		}
	}
	c13Inject(c13BeforeStart)
	rdB.StartRead(context.Background())
	c13Inject(c13AfterStartWatch)
	vQuiesce()
	vQuiesce()
	c13Write = nil
	vAssert(c13Count(mgrA.started, 10) >= 1 && c13Count(mgrB.started, 40) >= 1, "C13.existing-collection-is-started")
	vAssert(c13Count(mgrA.started, 40) == 0 && c13Count(mgrA.started, 50) == 0 && c13Count(mgrB.started, 10) == 0, "C13.a-task-starts-only-what-it-selects")
	if lateKind == 0 {
		vAssert(c13Count(mgrB.started, 50) >= 1, "C13.collection-created-while-a-second-task-starts-is-not-missed")
	} else {
		n := 0
		for _, p := range mgrB.partitions {
			if p == [2]int64{40, 402} {
				n++
			}
		}
		vAssert(n >= 1, "C13.partition-created-while-a-second-task-starts-is-not-missed")
	}
	vReach("end")
}
