//go:build verif

package reader

import "github.com/zilliztech/milvus-cdc/core/config"

// RETRY: attempts of the retry settings handed to the real code (default 1; entries that need a
// real back-off between attempts set RETRY together with the executor's R / RY parameters)
func c13Retry() config.RetrySettings {
	return config.RetrySettings{RetryTimes: vParam("RETRY", 1), InitBackOff: 1, MaxBackOff: 1}
}
func c13ReaderCfg() config.ReaderConfig { return config.ReaderConfig{Retry: c13Retry()} }
