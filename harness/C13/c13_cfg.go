//go:build verif

package reader

import "github.com/zilliztech/milvus-cdc/core/config"

func c13Retry() config.RetrySettings { return config.RetrySettings{RetryTimes: 1, InitBackOff: 1, MaxBackOff: 1} }
func c13ReaderCfg() config.ReaderConfig { return config.ReaderConfig{Retry: c13Retry()} }
