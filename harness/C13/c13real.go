//go:build verif

package reader

// C13, second part: "being notified twice about the same object has no further effect" on
// the REAL channel manager. The real CollectionReader and the real EtcdOp (over the harness
// catalog of c13.go) drive the REAL replicateChannelManager (StartReadCollection,
// startReadCollectionForMilvus, startReadChannel, AddCollection goroutines over a fake stream
// creator, AddPartition with its barrier registry). A collection / partition is notified a
// second time either because it was created between the opening of the watch and the listing
// (it is listed AND delivered by the watch) or because its catalog record is written again in
// the created state. After quiescence the second notification must have left no trace: no
// error reported by the reader (the server pauses the task on one), no error event, one stream
// per shard, one barrier registration, and a row sent afterwards is emitted exactly once.

import (
	"context"
	"strconv"

	"github.com/golang/protobuf/proto"
	"github.com/milvus-io/milvus-proto/go-api/v2/commonpb"
	"github.com/milvus-io/milvus-proto/go-api/v2/msgpb"
	"github.com/milvus-io/milvus-proto/go-api/v2/schemapb"
	"github.com/milvus-io/milvus/pkg/mq/msgstream"

	"github.com/zilliztech/milvus-cdc/core/api"
	"github.com/zilliztech/milvus-cdc/core/model"
	"github.com/zilliztech/milvus-cdc/core/pb"
)

var c13StartCalls, c13AddPartCalls int

func c13HookBeforeStartReadCollection(r *replicateChannelManager, ctx context.Context, db *model.DatabaseInfo, info *pb.CollectionInfo, seek []*msgpb.MsgPosition, startTs map[string]uint64) {
	c13StartCalls++
}
func c13HookBeforeAddPartition(r *replicateChannelManager, ctx context.Context, db *model.DatabaseInfo, c *pb.CollectionInfo, p *pb.PartitionInfo) {
	c13AddPartCalls++
}

func c13Digit(i int) string { return string(rune('0' + i)) }

func c13VCh(id int64, s int) string {
	return "src-dml_" + c13Digit(s) + "_" + strconv.FormatInt(id, 10) + "v" + c13Digit(s)
}

// putShardedCollection writes a collection record with its channels and start positions
func (e *c13Etcd) putShardedCollection(db, id int64, name string, state pb.CollectionState, createTime uint64, shards int) {
	info := &pb.CollectionInfo{ID: id, DbId: db, Schema: &schemapb.CollectionSchema{Name: name}, State: state, CreateTime: createTime}
	for s := 0; s < shards; s++ {
		p := "src-dml_" + c13Digit(s)
		info.PhysicalChannelNames = append(info.PhysicalChannelNames, p)
		info.VirtualChannelNames = append(info.VirtualChannelNames, c13VCh(id, s))
		info.StartPositions = append(info.StartPositions, &commonpb.KeyDataPair{Key: p, Data: []byte("start")})
	}
	b, _ := proto.Marshal(info)
	fb, _ := proto.Marshal(&schemapb.FieldSchema{FieldID: 100, Name: "pk"})
	e.put(c13Root+fieldPrefix+"/"+strconv.FormatInt(id, 10)+"/100", fb)
	e.put(c13Root+collectionPrefix+"/"+strconv.FormatInt(db, 10)+"/"+strconv.FormatInt(id, 10), b)
}

type c13RealWorld struct {
	w    *c04World
	etcd *c13Etcd
	rd   api.Reader
	errs []error
}

func c13NewRealWorld(shards int) *c13RealWorld {
	c13StartCalls, c13AddPartCalls = 0, 0
	rw := &c13RealWorld{w: c04NewRealWorld(shards), etcd: &c13Etcd{data: map[string][]byte{}}}
	rw.w.target.parts["p1"] = 2
	rw.w.target.parts["p2"] = 3
	rw.etcd.putDB(1, "default")
	return rw
}

func (rw *c13RealWorld) start() {
	op := c13NewEtcdOp(rw.etcd)
	all := func(*model.DatabaseInfo, *pb.CollectionInfo) (bool, bool) { return false, true }
	rw.rd, _ = NewCollectionReader("task-7", rw.w.mgr, op, nil, nil, all, c13ReaderCfg())
	// what the server does with the reader's error channel: the first error pauses the task
	go func() {
		if err := <-rw.rd.ErrorChan(); err != nil {
			rw.errs = append(rw.errs, err)
		}
	}()
	c13Inject(c13BeforeStart)
	// the start sequence runs beside the harness, so that the back-off of a retry inside it
	// (AddPartition waiting for the stream registrations) lets the other goroutines run
	done := make(chan struct{})
	go func() {
		rw.rd.StartRead(context.Background())
		close(done)
	}()
	for fin := false; !fin; {
		select {
		case <-done:
			fin = true
		default:
			vQuiesce()
		}
	}
	c13Inject(c13AfterStartWatch)
	rw.settle()
}

// settle: long enough for RETRY attempts with their back-off (natively 1 s each)
func (rw *c13RealWorld) settle() {
	for i := 0; i < 8*vParam("RETRY", 1); i++ {
		vQuiesce()
	}
}

// checkOnce: collection id (S shards) is replicated exactly once
func (rw *c13RealWorld) checkOnce(id int64, shards int) {
	// natively: the stream registrations run in their own goroutines; wait (bounded) until every
	// shard has opened its stream before counting
	for i := 0; i < 40; i++ {
		opened := true
		for s := 0; s < shards; s++ {
			opened = opened && rw.w.streams.opened(c13VCh(id, s)) >= 1
		}
		if opened {
			break
		}
		vQuiesce()
	}
	vAssert(len(rw.errs) == 0, "C13.second-notification-reports-no-error")
	vAssert(len(rw.w.events(api.ReplicateError)) == 0, "C13.second-notification-raises-no-error-event")
	for s := 0; s < shards; s++ {
		vAssert(rw.w.streams.opened(c13VCh(id, s)) == 1, "C13.one-stream-per-shard-of-a-collection-notified-twice")
	}
	rw.w.mgr.collectionLock.RLock()
	_, reg := rw.w.mgr.replicateCollections[id]
	rw.w.mgr.collectionLock.RUnlock()
	vAssert(reg, "C13.collection-notified-twice-is-still-replicated")
	// a row sent after the second notification is emitted exactly once
	for s := 0; s < shards; s++ {
		v := c13VCh(id, s)
		ts := uint64(5000 + 10*s)
		pos := rPos(v, "m", ts)
		rw.w.streams.chans[v] <- &msgstream.MsgPack{BeginTs: ts, EndTs: ts, Msgs: []msgstream.TsMsg{rInsert(id, 1, "_default", v, ts, pos, 1)},
			StartPositions: []*msgpb.MsgPosition{pos}, EndPositions: []*msgpb.MsgPosition{pos}}
	}
	rw.settle()
	vAssert(rw.w.emittedData() == shards, "C13.rows-of-a-collection-notified-twice-are-emitted-once")
	vAssert(len(rw.errs) == 0, "C13.second-notification-reports-no-error")
}

// VerifC13_CollectionNotifiedTwice: a collection is created at an arbitrary step of the start
// sequence (so that it can be both listed and delivered by the watch), or its record is
// written again in the created state after the start (what an alter / rename of the collection
// does to the catalog).
func VerifC13_CollectionNotifiedTwice() {
	S := vParam("S", 2)
	rw := c13NewRealWorld(S)
	again := vBool("recordWrittenAgainAfterStart")
	if again {
		rw.etcd.putShardedCollection(1, 100, "coll", pb.CollectionState_CollectionCreated, 1000, S)
		c13Write = nil
	} else {
		c13At, c13Done = vChoice("writeStep", c13Steps), false
		c13Write = func() {
			rw.etcd.putShardedCollection(1, 100, "coll", pb.CollectionState_CollectionCreating, 1000, S)
			rw.etcd.putShardedCollection(1, 100, "coll", pb.CollectionState_CollectionCreated, 1000, S)
		}
	}
	rw.start()
	if again {
		rw.etcd.putShardedCollection(1, 100, "coll", pb.CollectionState_CollectionCreated, 1000, S)
		rw.settle()
	}
	c13Write = nil
	rw.checkOnce(100, S)
	vReach("end")
}

// VerifC13_PartitionNotifiedTwice: the same for a non-default partition of a replicated
// collection (the downstream already has the partition or not).
func VerifC13_PartitionNotifiedTwice() {
	S := vParam("S", 2)
	rw := c13NewRealWorld(S)
	if vBool("targetLacksThePartition") {
		delete(rw.w.target.parts, "p1")
	}
	rw.etcd.putShardedCollection(1, 100, "coll", pb.CollectionState_CollectionCreated, 1000, S)
	rw.etcd.putPartition(100, 1, "_default", pb.PartitionState_PartitionCreated)
	again := vBool("recordWrittenAgainAfterStart")
	if again {
		rw.etcd.putPartition(100, 11, "p1", pb.PartitionState_PartitionCreated)
		c13Write = nil
	} else {
		c13At, c13Done = vChoice("writeStep", c13Steps), false
		c13Write = func() {
			rw.etcd.putPartition(100, 11, "p1", pb.PartitionState_PartitionCreating)
			rw.etcd.putPartition(100, 11, "p1", pb.PartitionState_PartitionCreated)
		}
	}
	rw.start()
	if again {
		rw.etcd.putPartition(100, 11, "p1", pb.PartitionState_PartitionCreated)
		rw.settle()
	}
	c13Write = nil
	rw.w.mgr.partitionLock.Lock()
	n := len(rw.w.mgr.replicatePartitions[100])
	rw.w.mgr.partitionLock.Unlock()
	vAssert(n == 1, "C13.one-barrier-registration-for-a-partition-notified-twice")
	vAssert(len(rw.w.events(api.ReplicateCreatePartition)) <= 2, "C13.partition-create-requests-bounded")
	rw.checkOnce(100, S)
	vReach("end")
}
