#!/bin/bash
# Runs every registered check in the thorough tier (evidence to a scratch dir) and reports exit codes / times.
cd /verif
ids=$(python3 -c "import json; print(' '.join(c['property_id'] for c in json.load(open('MANIFEST.json'))['checks']))")
[ -n "$1" ] && ids="$1"
mkdir -p /tmp/ev-thorough
for id in $ids; do
  s=$(date +%s)
  nice -n 5 ./bin/symgo -evidence-dir /tmp/ev-thorough $id thorough > /tmp/thor_$id.log 2>&1; rc=$?
  echo "$id exit=$rc secs=$(( $(date +%s)-s )) $(grep -c '^VIOLATION' /tmp/thor_$id.log) violations; $(grep -E 'INCONCLUSIVE property' /tmp/thor_$id.log | head -2 | cut -c1-160 | tr '\n' ' ')"
done
