#!/usr/bin/env python3
"""Regenerates /verif/MANIFEST.json from the per-check table below."""
import json, os, sys
ROOT = os.path.dirname(os.path.dirname(os.path.abspath(__file__)))
ENV = "GOFLAGS=-mod=mod GOPROXY=off GOSUMDB=off GOTOOLCHAIN=local"
ALL = ["C%02d" % i for i in range(1, 21)]

# property -> (level text, level note, technique, design ref)
CHECKS = json.load(open(os.path.join(ROOT, "tools", "checks_table.json")))
NA = json.load(open(os.path.join(ROOT, "tools", "not_applicable.json")))

checks = []
for pid in ALL:
    if pid not in CHECKS:
        continue
    c = CHECKS[pid]
    checks.append({
        "property_id": pid,
        "quick_cmd": "./bin/symgo %s quick" % pid,
        "thorough_cmd": "./bin/symgo %s thorough" % pid,
        "evidence_file": "evidence/%s.json" % pid,
        "replay_cmd_template": "./bin/symgo -replay {path}",
        "engine": "symgo",
        "level_claimed": {"category": "model_checking", "text": c["text"], "design_ref": c.get("design_ref", "DESIGN.md §4 " + pid)},
        "level_note": c["note"],
        "technique": c.get("technique", "bounded symbolic execution of the real Go SSA + SMT (z3/cvc5); sat models replayed natively"),
    })
na = [{"property_id": p, "reason": NA[p]} for p in ALL if p not in CHECKS]
for p in ALL:
    if p not in CHECKS and p not in NA:
        sys.exit("property %s neither claimed nor not_applicable" % p)
m = {
    "version": 1,
    "setup_cmd": "mkdir -p bin && cd engine && %s go build -o ../bin/symgo ." % ENV,
    "hooks": {
        "guard": "verif",
        "enable": "harness files carry //go:build verif and are injected by overlay (go/packages Overlay for the encoder, go test -overlay -tags verif for native replay); /repo itself has no hook commits",
        "baseline_off_cmd": "for m in core server rocksdb; do (cd /repo/$m && %s go test -json -vet=off -count=1 -timeout 25m ./...); done" % ENV,
        "source_commits": [],
        "add_only": True,
    },
    "engines": [{
        "name": "symgo", "path": "engine",
        "serves_properties": [c["property_id"] for c in checks],
        "kind_free_text": "symbolic executor for go/ssa of the real repository code (loaded from /repo's working tree on every run) with z3/cvc5 back ends; forks by re-execution over a decision prefix; counterexamples replayed natively through go test -overlay",
    }],
    "checks": checks,
    "not_applicable": na,
    "notes": "exit 0 = all obligations discharged within the stated bounds; 1 = reproducing violation; 2 = inconclusive (solver unknown, unsupported construct, bound exceeded, non-reproducing counterexample). See DESIGN.md.",
}
json.dump(m, open(os.path.join(ROOT, "MANIFEST.json"), "w"), indent=1)
print("wrote MANIFEST.json with %d checks, %d not_applicable" % (len(checks), len(na)))
