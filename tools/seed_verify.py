#!/usr/bin/env python3
"""Confirm a seeded breaking change delivered by a sub-agent and store it under /verif/seeded/<name>/.

usage: seed_verify.py <name> <property> <outdir> [--check-entry E]
Steps (all in a scratch worktree of /repo HEAD under /tmp/sv, removed afterwards):
  1 patch applies; module builds
  2 demo test FAILS with the patch, PASSES without it
  3 the baseline tests (BASELINE.json stable_pass) of every touched package still pass with the patch
Then: apply the patch to /repo, run the property's quick check, undo; report whether the check caught it.
"""
import json, os, re, subprocess, sys, shutil, time
ENV = dict(os.environ, GOFLAGS="-mod=mod", GOPROXY="off", GOSUMDB="off", GOTOOLCHAIN="local")
def sh(cmd, cwd=None, timeout=1800):
    p = subprocess.run(cmd, shell=True, cwd=cwd, env=ENV, capture_output=True, text=True, timeout=timeout)
    return p.returncode, p.stdout + p.stderr
name, prop, out = sys.argv[1], sys.argv[2], sys.argv[3]
extra = sys.argv[4:]
wt = "/tmp/sv/" + name
sh("git -C /repo worktree remove --force %s" % wt); shutil.rmtree(wt, ignore_errors=True)
os.makedirs("/tmp/sv", exist_ok=True)
rc, o = sh("git -C /repo worktree add --detach %s HEAD" % wt); assert rc == 0, o
res = {"name": name, "property": prop}
try:
    patch = os.path.join(out, "patch.diff")
    rc, o = sh("git apply --check %s" % patch, cwd=wt)
    if rc != 0:
        rc, o = sh("git apply --3way %s" % patch, cwd=wt)
        res["apply"] = "3way" if rc == 0 else "FAILED: " + o[-400:]
        if rc != 0: raise SystemExit
        sh("git reset -q", cwd=wt)
    else:
        sh("git apply %s" % patch, cwd=wt); res["apply"] = "clean"
    rc, files = sh("git diff --name-only", cwd=wt); files = [f for f in files.split() if f.endswith(".go")]
    res["files"] = files
    demo = os.path.join(out, "demo_test.go")
    first = open(demo).readline()
    m = re.search(r"(core|server)[\w/]*", first)
    demodir = m.group(0).rstrip("/") if m else os.path.dirname(files[0])
    mod = demodir.split("/")[0]; rel = "./" + "/".join(demodir.split("/")[1:]) if "/" in demodir else "."
    dst = os.path.join(wt, demodir, "zz_seed_demo_test.go"); shutil.copy(demo, dst)
    tests = re.findall(r"^func (Test\w+)\(", open(demo).read(), re.M)
    runre = "^(" + "|".join(tests) + ")$"
    rc, o = sh("go build ./...", cwd=os.path.join(wt, mod)); res["build"] = rc == 0
    cmd = "timeout 1200 go test -vet=off -count=1 -run '%s' %s" % (runre, rel)
    rc1, o1 = sh(cmd, cwd=os.path.join(wt, mod)); res["demo_with_patch_fails"] = rc1 != 0 and "FAIL" in o1
    res["demo_with_patch_tail"] = o1[-600:]
    # (not git stash: the stash is shared by every worktree of the repository)
    sh("git diff -- " + " ".join(files) + " > /tmp/sv/" + name + ".toggle.diff && git apply -R /tmp/sv/" + name + ".toggle.diff", cwd=wt)
    rc2, o2 = sh(cmd, cwd=os.path.join(wt, mod)); res["demo_without_patch_passes"] = rc2 == 0
    res["demo_without_patch_tail"] = o2[-300:]
    sh("git apply /tmp/sv/" + name + ".toggle.diff", cwd=wt)
    # baseline tests of the touched packages
    base = json.load(open("/root/.vp/BASELINE.json"))["stable_pass"]
    ok_all = True; ran = []
    pk = set(os.path.dirname(f) for f in files)
    # also the packages that (transitively) import the touched ones and have baseline tests
    allp = sorted(set(t.split("::")[0].replace("github.com/zilliztech/milvus-cdc/", "") for t in base))
    if any(f.startswith("core/") for f in files):
        pk |= set(allp)
    elif any(f.startswith("server/") for f in files):
        pk |= set(x for x in allp if x.startswith("server"))
    pk = sorted(pk)
    for d in pk:
        imp = "github.com/zilliztech/milvus-cdc/" + d
        names = sorted(set(t.split("::")[1] for t in base if t.split("::")[0] == imp and "/" not in t.split("::")[1]))
        if not names: continue
        os.remove(dst) if os.path.exists(dst) and os.path.dirname(dst) == os.path.join(wt, d) else None
        m2 = d.split("/")[0]; r2 = "./" + "/".join(d.split("/")[1:]) if "/" in d else "."
        rc3, o3 = sh("timeout 1500 go test -vet=off -count=1 -run '^(%s)$' %s" % ("|".join(names), r2), cwd=os.path.join(wt, m2))
        ran.append({"pkg": d, "tests": len(names), "ok": rc3 == 0, "tail": o3[-300:] if rc3 else ""})
        ok_all = ok_all and rc3 == 0
    res["baseline_tests"] = ran; res["baseline_ok"] = ok_all
    # run my check against the changed tree (the scratch worktree is used as the repo root so
    # that /repo itself is never modified while other checks may be reading it)
    if os.path.exists(dst): os.remove(dst)
    t0 = time.time()
    rc, o = sh("./bin/symgo -evidence-dir /tmp/sv/evidence -repo %s %s %s quick" % (wt, " ".join(extra), prop), cwd="/verif", timeout=3000)
    res["check_exit"] = rc; res["check_secs"] = round(time.time() - t0, 1)
    res["check_violation_lines"] = [l[:300] for l in o.splitlines() if l.startswith("VIOLATION")][:6]
    res["check_tail"] = o[-500:] if rc != 1 else ""
finally:
    sh("git -C /repo worktree remove --force %s" % wt); shutil.rmtree(wt, ignore_errors=True)
res["caught"] = res.get("check_exit") == 1
print(json.dumps(res, indent=1))
if res.get("demo_with_patch_fails") and res.get("demo_without_patch_passes") and res.get("baseline_ok") and res.get("build"):
    sd = "/verif/seeded/" + name; os.makedirs(sd, exist_ok=True)
    shutil.copy(patch, sd + "/patch.diff"); shutil.copy(demo, sd + "/demo_test.go")
    meta = {}
    try: meta = json.load(open(os.path.join(out, "meta.json")))
    except Exception: pass
    meta.update({"property": prop, "confirmed": {k: res[k] for k in ("apply", "files", "build", "demo_with_patch_fails", "demo_without_patch_passes", "baseline_tests")},
                 "what_i_ran": "tools/seed_verify.py: scratch worktree of /repo HEAD; demo with/without patch; BASELINE stable tests of touched packages with patch; then the quick check run with -repo pointing at the patched scratch worktree",
                 "check_result": {"exit": res.get("check_exit"), "caught": res["caught"], "violations": res.get("check_violation_lines"), "secs": res.get("check_secs")}})
    json.dump(meta, open(sd + "/meta.json", "w"), indent=1)
    print("STORED", sd)
else:
    print("NOT STORED (not confirmed)")
