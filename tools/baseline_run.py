#!/usr/bin/env python3
"""Runs the BASELINE stable_pass tests (by name) of the given repo-relative package dirs (default: all) against /repo."""
import json, os, subprocess, sys
ENV = dict(os.environ, GOFLAGS="-mod=mod", GOPROXY="off", GOSUMDB="off", GOTOOLCHAIN="local")
base = json.load(open("/root/.vp/BASELINE.json"))["stable_pass"]
pk = {}
subs = {}
for t in base:
    imp, name = t.split("::")
    d = imp.replace("github.com/zilliztech/milvus-cdc/", "")
    if "/" in name:
        par, sub = name.split("/", 1)
        if imp + "::" + par not in base:  # parent not stable as a whole: run the subtest alone
            subs.setdefault(d, set()).add("^%s$/^%s$" % (par, sub.split("/")[0]))
        continue
    pk.setdefault(d, set()).add(name)
want = sys.argv[1:]
bad = 0
for d in sorted(pk):
    if want and not any(d == w or d.startswith(w + "/") for w in want): continue
    mod = d.split("/")[0]; rel = "./" + "/".join(d.split("/")[1:]) if "/" in d else "."
    cmd = "timeout 1500 go test -vet=off -count=1 -run '^(%s)$' %s" % ("|".join(sorted(pk[d])), rel)
    p = subprocess.run(cmd, shell=True, cwd="/repo/" + mod, env=ENV, capture_output=True, text=True)
    print(d, len(pk[d]), "tests", "ok" if p.returncode == 0 else "FAIL\n" + (p.stdout + p.stderr)[-1500:])
    bad += p.returncode != 0
    for sp in sorted(subs.get(d, [])):
        p = subprocess.run("timeout 600 go test -vet=off -count=1 -run '%s' %s" % (sp, rel), shell=True, cwd="/repo/" + mod, env=ENV, capture_output=True, text=True)
        print(d, sp, "ok" if p.returncode == 0 else "FAIL\n" + (p.stdout + p.stderr)[-1500:])
        bad += p.returncode != 0
sys.exit(1 if bad else 0)
