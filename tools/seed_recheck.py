#!/usr/bin/env python3
"""Re-runs the quick check of every stored seed (/verif/seeded/*) against a scratch worktree of /repo HEAD
with the seed applied, and records the outcome in meta.json ("check_result"). usage: seed_recheck.py [name-prefix ...]"""
import json, os, subprocess, sys, shutil, time
ENV = dict(os.environ, GOFLAGS="-mod=mod", GOPROXY="off", GOSUMDB="off", GOTOOLCHAIN="local")
def sh(cmd, cwd=None, timeout=3000):
    p = subprocess.run(cmd, shell=True, cwd=cwd, env=ENV, capture_output=True, text=True, timeout=timeout)
    return p.returncode, p.stdout + p.stderr
want = sys.argv[1:]
head = sh("git -C /repo rev-parse --short HEAD")[1].strip()
rows = []
for name in sorted(os.listdir("/verif/seeded")):
    if want and not any(name.startswith(w) for w in want): continue
    sd = "/verif/seeded/" + name
    meta = json.load(open(sd + "/meta.json"))
    prop = meta["property"]
    wt = "/tmp/sv/re-" + name
    sh("git -C /repo worktree remove --force %s" % wt); shutil.rmtree(wt, ignore_errors=True)
    os.makedirs("/tmp/sv", exist_ok=True)
    rc, o = sh("git -C /repo worktree add --detach %s HEAD" % wt); assert rc == 0, o
    try:
        rc, o = sh("git apply %s/patch.diff" % sd, cwd=wt)
        how = "clean"
        if rc != 0:
            rc, o = sh("git apply --3way %s/patch.diff" % sd, cwd=wt); how = "3way"
        if rc != 0:
            res = {"exit": None, "caught": False, "note": "patch no longer applies to " + head}
        else:
            mod = "server" if any(f.startswith("server/") for f in meta.get("confirmed", {}).get("files", meta.get("files", []))) else "core"
            rc, o = sh("go build ./...", cwd=os.path.join(wt, mod))
            t0 = time.time()
            rc, o = sh("./bin/symgo -evidence-dir /tmp/sv/evidence -repo %s %s quick" % (wt, prop), cwd="/verif")
            res = {"exit": rc, "caught": rc == 1, "violations": [l[:200] for l in o.splitlines() if l.startswith("VIOLATION")][:4],
                   "secs": round(time.time() - t0, 1), "repo_head": head, "applied": how}
            if rc != 1: res["tail"] = o[-400:]
        meta["check_result"] = res
        json.dump(meta, open(sd + "/meta.json", "w"), indent=1)
        rows.append((name, prop, res.get("exit"), res.get("caught")))
        print(name, prop, res.get("exit"), res.get("caught"), flush=True)
    finally:
        sh("git -C /repo worktree remove --force %s" % wt); shutil.rmtree(wt, ignore_errors=True)
