#!/bin/bash
# Runs every registered check (quick by default) on /repo and reports exit codes.
cd /verif
tier=${1:-quick}
ids=$(python3 -c "import json; print(' '.join(c['property_id'] for c in json.load(open('MANIFEST.json'))['checks']))")
[ -n "$2" ] && ids="$2"
for id in $ids; do
  s=$(date +%s)
  ./bin/symgo $id $tier > /tmp/runall_$id.log 2>&1; rc=$?
  echo "$id exit=$rc secs=$(( $(date +%s)-s )) $(grep -c '^VIOLATION' /tmp/runall_$id.log) violations; $(grep -E 'native validation|KNOWN-FINDING' /tmp/runall_$id.log | cut -c1-120 | tr '\n' ' ')"
done
git -C /repo status --short
